//! C16 driver: associated constants and type aliases. group "consts": no args ; group "aliases" (cfg ignored)
//! (The digit-type independence and extension parts of C16 re-use the drivers c01..c12, see monitor/props/c16.py.)
use bnum_verif_harness::*;

macro_rules! body_u {
    ($kind:tt, $T:ty, $U:ty, $S:ty $(, $rest:tt)*) => {
        group_fn! { consts; args; { };
            "BITS" => <$T>::BITS, "BYTES" => <$T>::BYTES, "MIN" => <$T>::MIN, "MAX" => <$T>::MAX, "ZERO" => <$T>::ZERO,
            "ONE" => <$T>::ONE, "TWO" => <$T>::TWO, "THREE" => <$T>::THREE, "FOUR" => <$T>::FOUR, "FIVE" => <$T>::FIVE,
            "SIX" => <$T>::SIX, "SEVEN" => <$T>::SEVEN, "EIGHT" => <$T>::EIGHT, "NINE" => <$T>::NINE, "TEN" => <$T>::TEN,
        }
        pub fn run(g: &str, args: &Args, out: &mut String) -> bool {
            match g { "consts" => { consts(args, out); true } "aliases" => { super::aliases(args, out); true } _ => false }
        }
    };
}
macro_rules! body_i {
    ($kind:tt, $T:ty, $U:ty, $S:ty $(, $rest:tt)*) => {
        group_fn! { consts; args; { };
            "BITS" => <$T>::BITS, "BYTES" => <$T>::BYTES, "MIN" => <$T>::MIN, "MAX" => <$T>::MAX, "ZERO" => <$T>::ZERO,
            "ONE" => <$T>::ONE, "TWO" => <$T>::TWO, "THREE" => <$T>::THREE, "FOUR" => <$T>::FOUR, "FIVE" => <$T>::FIVE,
            "SIX" => <$T>::SIX, "SEVEN" => <$T>::SEVEN, "EIGHT" => <$T>::EIGHT, "NINE" => <$T>::NINE, "TEN" => <$T>::TEN,
            "NEG_ONE" => <$T>::NEG_ONE, "NEG_TWO" => <$T>::NEG_TWO, "NEG_THREE" => <$T>::NEG_THREE, "NEG_FOUR" => <$T>::NEG_FOUR,
            "NEG_FIVE" => <$T>::NEG_FIVE, "NEG_SIX" => <$T>::NEG_SIX, "NEG_SEVEN" => <$T>::NEG_SEVEN, "NEG_EIGHT" => <$T>::NEG_EIGHT,
            "NEG_NINE" => <$T>::NEG_NINE, "NEG_TEN" => <$T>::NEG_TEN,
        }
        pub fn run(g: &str, args: &Args, out: &mut String) -> bool {
            match g { "consts" => { consts(args, out); true } "aliases" => { super::aliases(args, out); true } _ => false }
        }
    };
}

group_fn! { aliases; args; { use bnum::types::*; };
    "U128" => (U128::BITS, U128::MAX), "U256" => (U256::BITS, U256::MAX), "U512" => (U512::BITS, U512::MAX),
    "U1024" => (U1024::BITS, U1024::MAX), "U2048" => (U2048::BITS, U2048::MAX), "U4096" => (U4096::BITS, U4096::MAX),
    "U8192" => (U8192::BITS, U8192::MAX),
    "I128" => (I128::BITS, I128::MIN), "I256" => (I256::BITS, I256::MIN), "I512" => (I512::BITS, I512::MIN),
    "I1024" => (I1024::BITS, I1024::MIN), "I2048" => (I2048::BITS, I2048::MIN), "I4096" => (I4096::BITS, I4096::MIN),
    "I8192" => (I8192::BITS, I8192::MIN),
}

for_cfgs!(gen_mods; run_bnum, bnum, body_u, body_i);

fn run(cfg: &str, g: &str, args: &Args, out: &mut String) -> bool {
    run_bnum(cfg, g, args, out)
}

fn main() {
    main_loop("C16", run);
}
