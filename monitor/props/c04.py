"""C04 — panics occur exactly where the primitive integers panic, per build mode."""
import core
import gen
from core import PANIC, ANY, NOPANIC, Some, Pred
from props.common import default_encode, default_decode, split_range
from props import c01, c02, c03, c08

PROP = 'C04'
BIN = 'c04'
DENSE = {'quick': {8: 16, 16: 16, 32: 16, 64: 16}, 'thorough': {8: 48, 16: 48, 32: 48, 64: 48}}   # bounded by the build time of this driver
SIG = {'ar': 'xx', 'sh': 'xd', 'pw': 'xdx'}
encode = default_encode(SIG)
decode = default_decode(SIG)
TASK_REQS = 2000
RULE = ('every operator / unsuffixed / strict_ / checked_ / wrapping_ / overflowing_ / saturating_ method is executed under catch_unwind '
        'in a build with and a build without debug assertions; operands come from the generators of C01/C02/C03/C08 (about half on the '
        'overflowing side), shift amounts in all twelve primitive amount types including negative and > u32::MAX values; at 8/16/32/64/128 '
        'bits the same operator is executed on the primitive in the same process and build mode. Non-trivial: at least one operation '
        'of the request is on its panicking/wrapping side; distinct = distinct request lines')

AMT = [('u8', 0, 255), ('u16', 0, 65535), ('u32', 0, 2 ** 32 - 1), ('u64', 0, 2 ** 64 - 1), ('u128', 0, 2 ** 128 - 1), ('usize', 0, 2 ** 64 - 1),
       ('i8', -128, 127), ('i16', -2 ** 15, 2 ** 15 - 1), ('i32', -2 ** 31, 2 ** 31 - 1), ('i64', -2 ** 63, 2 ** 63 - 1),
       ('i128', -2 ** 127, 2 ** 127 - 1), ('isize', -2 ** 63, 2 ** 63 - 1)]


def configs(tier):
    return core.cfg_names(full=(tier == 'thorough'))


def budget(cfg, tier):
    base = 3000 if tier == 'quick' else 30000
    if cfg.bits == 8:
        return 65536 + 256 * 40 + 256 * 20
    if cfg.n >= 1024:
        return 30 if tier == 'quick' else 150
    if cfg.n >= 128:
        return base // 10
    return base


def shift_amount(cfg, rng):
    b = cfg.bits
    r = rng.random()
    if r < 0.3:
        return rng.randrange(b)
    if r < 0.5:
        return rng.choice((b, b + 1, 2 * b, b - 1, 255, 256, 127, 128, 65535, 65536, 2 ** 31 - 1, 2 ** 31, 2 ** 32 - 1, 2 ** 32, 2 ** 32 + 1,
                           2 ** 32 + b - 1, 2 ** 63 - 1, 2 ** 63, 2 ** 64 - 1, 2 ** 64, 2 ** 64 + 3, 2 ** 127 - 1, 2 ** 127, 2 ** 128 - 1))
    if r < 0.7:
        return -rng.choice((1, 2, b - 1, b, b + 1, 127, 128, 129, 2 ** 15, 2 ** 31, 2 ** 31 + 1, 2 ** 32 - 1, 2 ** 32, 2 ** 32 + 5, 2 ** 63, 2 ** 63 + 1,
                            2 ** 127, rng.randrange(1, 300)))
    if r < 0.85:
        return rng.randrange(b, 4 * b)
    return rng.choice((1, -1)) * rng.getrandbits(rng.choice((8, 16, 32, 33, 64, 65, 127)))


def requests(cfg, rng, n, tier, part, nparts, st):
    if cfg.bits == 8:
        total = 65536 + 256 * 40 + 256 * 20
        lo, hi = split_range(total, part, nparts)
        amts = list(range(-4, 20)) + [127, 128, 255, 256, -128, -129, 2 ** 32 - 1, 2 ** 32, 2 ** 32 + 7, -2 ** 31, 2 ** 64, -2 ** 63, 2 ** 127, -2 ** 127, 2 ** 128 - 1, 65535]
        exps = list(range(12)) + [15, 16, 31, 32, 255, 256, 2 ** 32 - 1, 2 ** 31]
        for i in range(lo, hi):
            if i < 65536:
                yield 'ar', (cfg.val(i & 255), cfg.val(i >> 8))
            elif i < 65536 + 256 * 40:
                j = i - 65536
                yield 'sh', (cfg.val(j & 255), amts[j >> 8])
            else:
                j = i - 65536 - 256 * 40
                yield 'pw', (cfg.val(j & 255), exps[j >> 8], cfg.val((j * 37 + (j >> 8)) & 255))
        st['exhaustive'].append('%s: all 2^16 operand pairs; all values x 40 shift amounts; all bases x 20 exponents' % cfg.name)
        return
    n1 = n // 5
    its = [c01.requests(cfg, rng, n1, tier, 0, 1, st), c02.requests(cfg, rng, n1, tier, 0, 1, st), c03.requests(cfg, rng, n1, tier, 0, 1, st, exhaustive=False)]
    for it in its:
        for g, a in it:
            if g == 'dd':
                continue
            yield 'ar', (a[0], a[1])
    for _ in range(n1):
        yield 'sh', (gen.value(cfg, rng), shift_amount(cfg, rng))
    for g, a in c08.requests(cfg, rng, n1 * 2, tier, 0, 1, st):
        if g == 'pow':
            yield 'pw', (a[0], a[1], gen.value(cfg, rng))
        else:
            yield 'pw', (a[0], rng.choice((0, 1, 2, 3, rng.getrandbits(32))), a[1])


def model(cfg, ctx, group, args):
    dbg = ctx['dbg']
    exp = {}
    cls = set()
    mode = 'dbg' if dbg else 'rel'
    b = cfg.bits
    if group == 'ar':
        a, bb = args
        e1, _ = c01.model(cfg, ctx, 'as', (a, bb, 0))
        e2, _ = c02.model(cfg, ctx, 'mul', (a, bb, 0))
        e3, _ = c03.model(cfg, ctx, 'dr', (a, bb))
        exp.update(e1)
        exp.update(e2)
        exp.update(e3)
        for op in ('add', 'sub', 'mul'):
            v, o = exp['overflowing_' + op]
            exp['op_' + op] = (PANIC if dbg else v) if o else v
            if o:
                cls.add('%s: unrepresentable (%s)' % (op, 'panics' if dbg else 'wraps'))
        exp['op_div'] = exp.pop('div')
        exp['op_rem'] = exp.pop('rem')
        for op in ('add', 'sub', 'mul', 'div', 'rem'):
            exp['op_%s_rr' % op] = exp['op_%s_assign' % op] = exp['op_' + op]
        if bb == 0:
            cls.add('zero divisor')
        if cfg.signed:
            v, o = exp['overflowing_neg']
            exp['op_neg'] = exp['op_neg_r'] = (PANIC if dbg else v) if o else v
            v, o = exp['overflowing_abs']
            exp['abs'] = (PANIC if dbg else v) if o else v
            if o:
                cls.add('neg/abs of MIN (%s)' % ('panics' if dbg else 'wraps'))
            if a == cfg.min and bb == -1:
                cls.add('MIN / -1 through the operators (panics in both modes)')
        else:
            npo = 1 if a <= 1 else 1 << (a - 1).bit_length()
            if npo <= cfg.max:
                exp['next_power_of_two'] = npo
                exp['checked_next_power_of_two'] = Some(npo)
            else:
                exp['next_power_of_two'] = PANIC if dbg else 0
                exp['checked_next_power_of_two'] = None
                cls.add('next_power_of_two: unrepresentable (%s)' % ('panics' if dbg else 'wraps to 0'))
        if exp.get('checked_next_multiple_of') is None and bb != 0:
            cls.add('next_multiple_of: unrepresentable (%s)' % ('panics' if dbg else 'wraps'))
        for k in ('strict_add', 'strict_sub', 'strict_mul', 'strict_neg'):
            if exp.get(k) == PANIC:
                cls.add('strict_* overflow (panics in both modes)')
                break
    elif group == 'sh':
        a, s = args
        bad = s < 0 or s >= b
        if cfg.pow2:
            k = s % b
            wl, wr = cfg.wrap(a << k), a >> k
        for tname, lo, hi in AMT:
            for nm, good, wrapped in (('shl', lambda: cfg.wrap(a << s), lambda: wl), ('shr', lambda: a >> s, lambda: wr)):
                key = '%s_%s' % (nm, tname)
                if not (lo <= s <= hi):
                    exp[key] = None
                elif not bad:
                    exp[key] = Some(good())
                elif dbg:
                    exp[key] = PANIC
                else:
                    exp[key] = Some(wrapped()) if cfg.pow2 else NOPANIC
        fits32 = 0 <= s < 2 ** 32
        for nm in ('shl', 'shr'):
            good = (lambda: cfg.wrap(a << s)) if nm == 'shl' else (lambda: a >> s)
            wrapped = (lambda: wl) if nm == 'shl' else (lambda: wr)
            if not fits32:
                for p in ('strict_', 'checked_', 'wrapping_', 'overflowing_'):
                    exp[p + nm] = None
            elif not bad:
                v = good()
                exp['strict_' + nm] = Some(v)
                exp['checked_' + nm] = Some(Some(v))
                exp['wrapping_' + nm] = Some(v)
                exp['overflowing_' + nm] = Some((v, False))
            else:
                exp['strict_' + nm] = PANIC
                exp['checked_' + nm] = Some(None)
                exp['wrapping_' + nm] = Some(wrapped()) if cfg.pow2 else NOPANIC
                exp['overflowing_' + nm] = Some((wrapped(), True)) if cfg.pow2 else Some((ANY, True))
        if s < 0:
            cls.add('negative shift amount (%s)' % mode)
        elif s >= b:
            cls.add('shift amount >= BITS (%s)' % mode)
            if s >= 2 ** 32:
                cls.add('shift amount > u32::MAX (%s)' % mode)
        else:
            cls.add('plain:shift amount in range')
    else:
        a, e, bb = args
        e1, c1 = c08.model(cfg, ctx, 'pow', (a, e))
        e2, c2 = c08.model(cfg, ctx, 'log', (a, bb))
        exp.update(e1)
        exp.update(e2)
        if e1['checked_pow'] is None:
            cls.add('pow: unrepresentable (%s)' % ('panics' if dbg else 'wraps'))
        if e2['checked_ilog'] is None or e2['checked_ilog2'] is None:
            cls.add('ilog: invalid argument or base (panics in both modes)')
    if not cls:
        cls.add('plain')
    return exp, cls


REQUIRED = ['zero divisor', 'MIN / -1 through the operators (panics in both modes)', 'strict_* overflow (panics in both modes)',
            'ilog: invalid argument or base (panics in both modes)'] + \
    ['%s: unrepresentable (%s)' % (op, m) for op in ('add', 'sub', 'mul', 'pow', 'next_multiple_of') for m in ('panics', 'wraps')] + \
    ['neg/abs of MIN (panics)', 'neg/abs of MIN (wraps)', 'next_power_of_two: unrepresentable (panics)',
     'next_power_of_two: unrepresentable (wraps to 0)'] + \
    ['%s (%s)' % (c, m) for c in ('negative shift amount', 'shift amount >= BITS', 'shift amount > u32::MAX') for m in ('dbg', 'rel')]


def floors(st, tier):
    return ['class %r never observed' % c for c in REQUIRED if st['classes'].get(c, 0) == 0]
