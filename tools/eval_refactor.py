#!/usr/bin/env python3
"""Development aid: soundness test. Applies a PROPERTY-PRESERVING change (patch.diff in <dir>) to a scratch worktree and runs every
quick check against it; every check must stay silent (exit 0).  tools/eval_refactor.py <dir> [--checks C01,C02,...]"""
import json, os, re, subprocess, sys, time, shutil, glob
ROOT = os.path.dirname(os.path.dirname(os.path.abspath(__file__)))
def sh(cmd, cwd=None, env=None, timeout=7200):
    p = subprocess.run(cmd, shell=True, cwd=cwd, env=env, stdout=subprocess.PIPE, stderr=subprocess.STDOUT, text=True, timeout=timeout)
    return p.returncode, p.stdout
d = os.path.abspath(sys.argv[1])
checks = ['C%02d' % i for i in range(1, 21)]
if '--checks' in sys.argv:
    checks = sys.argv[sys.argv.index('--checks') + 1].split(',')
wt = '/tmp/er-' + re.sub(r'[^A-Za-z0-9]', '', d)[-20:]
sh('git -C /repo worktree remove --force %s' % wt)
sh('git -C /repo worktree add -q --detach %s HEAD' % wt)
res = {'dir': d, 'at': time.strftime('%Y-%m-%dT%H:%M:%S'), 'checks': {}}
try:
    rc, out = sh('git apply %s' % os.path.join(d, 'patch.diff'), cwd=wt)
    res['patch_applies'] = rc == 0
    if rc == 0:
        env = dict(os.environ, CARGO_NET_OFFLINE='true')
        rc, out = sh('cargo nextest run --workspace --no-fail-fast --test-threads 8 --offline 2>&1 | tail -3', cwd=wt, env=env)
        res['suite'] = out.strip().splitlines()[-1] if out.strip() else ''
        for c in checks:
            t0 = time.time()
            rc, out = sh('./check %s quick' % c, cwd=ROOT, env=dict(env, VERIF_REPO=wt))
            lines = [l[:400] for l in out.splitlines() if l.startswith(('VIOLATION', 'INCONCLUSIVE', '    ')) and 'request:' not in l][:6]
            res['checks'][c] = {'exit': rc, 'lines': lines, 'wall_s': round(time.time() - t0)}
            print(c, 'exit', rc, flush=True)
finally:
    sh('git -C /repo worktree remove --force %s' % wt)
    sys.path.insert(0, os.path.join(ROOT, 'monitor'))
    import core
    h = core.h64(os.path.realpath(wt)).to_bytes(8, 'little').hex()[:8]
    for g in glob.glob(os.path.join(ROOT, '.build', '*' + h + '*')):
        shutil.rmtree(g, ignore_errors=True)
json.dump(res, open(os.path.join(d, 'eval.json'), 'w'), indent=1)
bad = {c: v for c, v in res['checks'].items() if v['exit'] != 0}
print('ALARMS:', json.dumps(bad, indent=1) if bad else 'none')
