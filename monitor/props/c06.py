"""C06 — bitwise logic, bit counts and bit manipulation act on the exact bit pattern."""
import core
import gen
from core import Some
from props.common import thorough_aux, default_encode, default_decode, split_range

PROP = 'C06'
BIN = 'c06'
SIG = {'bits': 'xxdd'}
encode = default_encode(SIG)
decode = default_decode(SIG)
TASK_REQS = 4000
RULE = ('requests (a, b, index, bit value): patterns with k whole extreme digits followed by a partial one, sparse patterns, boundary '
        'values, all-zero / all-one; every bit index < BITS (digit boundaries favoured); all 2^8 / 2^16 values of the 8/16-bit types. '
        'Non-trivial: >= 1 whole leading or trailing extreme digit, index on a digit boundary, next_power_of_two at or above '
        '2^(BITS-1), all-zero / all-one patterns; distinct = distinct request lines')


def configs(tier):
    return core.cfg_names(full=(tier == 'thorough'))


def budget(cfg, tier):
    base = 4000 if tier == 'quick' else 40000
    if cfg.bits == 8:
        return 256 * 16
    if cfg.bits == 16:
        return 65536 if tier == 'quick' else 65536 * 4
    if cfg.n >= 1024:
        return base // 8
    return base


def lead_trail(cfg, rng):
    """k whole extreme digits at the top or bottom followed by a partial one"""
    D, N = cfg.dbits, cfg.n
    fill = rng.choice((0, 1))
    k = rng.randrange(0, N + 1)
    part = rng.randrange(0, D)
    nb = min(cfg.bits, k * D + part)
    run = ((1 << nb) - 1) if fill else 0
    rest_bits = cfg.bits - nb
    rest = rng.getrandbits(rest_bits) if rest_bits else 0
    if rest_bits:
        # the bit adjacent to the run must differ from the fill so the run length is exact
        if rng.random() < 0.5:   # run at the top
            rest = (rest | (1 << (rest_bits - 1))) if not fill else (rest & ~(1 << (rest_bits - 1)))
            p = (run << rest_bits) | rest
        else:                    # run at the bottom
            rest = (rest | 1) if not fill else (rest & ~1)
            p = (rest << nb) | run
    else:
        p = run
    return cfg.val(p & cfg.mask)


def requests(cfg, rng, n, tier, part, nparts, st):
    b = cfg.bits
    if b == 8:
        lo, hi = split_range(256 * 16, part, nparts)
        for i in range(lo, hi):
            a = i & 255
            j = i >> 8
            yield 'bits', (cfg.val(a), cfg.val((a * 167 + j * 29) & 255), j & 7, j >> 3)
        st['exhaustive'].append('%s: all values x all indices x both bit values' % cfg.name)
        return
    if b == 16:
        total = 65536 if tier == 'quick' else 65536 * 4
        lo, hi = split_range(total, part, nparts)
        for i in range(lo, hi):
            a = i & 0xffff
            yield 'bits', (cfg.val(a), cfg.val((a * 40503 + 977) & 0xffff), (a + (i >> 16) * 5) % 16, (i >> 3) & 1)
        st['exhaustive'].append('%s: all 2^16 values' % cfg.name)
        return
    for k in range(n):
        r = rng.random()
        if r < 0.10:
            a = gen.periodic(cfg, rng)
        elif r < 0.35:
            a = lead_trail(cfg, rng)
        elif r < 0.55:
            a = gen.sparse(cfg, rng)
        elif r < 0.60:
            a = rng.choice((0, -1, cfg.min, cfg.max, 1))
        else:
            a = gen.value(cfg, rng)
        bb = gen.value(cfg, rng) if rng.random() < 0.6 else gen.related(cfg, rng, cfg.wrap(a))
        if cfg.n <= 8 or rng.random() < 0.3:
            i = (k * 7 + rng.randrange(7)) % b if rng.random() < 0.5 else gen.pick_bitpos(cfg, rng)
        else:
            i = gen.pick_bitpos(cfg, rng)
        yield 'bits', (cfg.wrap(a), cfg.wrap(bb), i, rng.getrandbits(1))


def _rev_bits(p, bits):
    return int(format(p, '0%db' % bits)[::-1], 2)


def model(cfg, ctx, group, args):
    a, b, i, v = args
    B = cfg.bits
    pa, pb = cfg.pat(a), cfg.pat(b)
    exp = {}
    cls = set()
    exp['and'] = cfg.val(pa & pb)
    exp['or'] = cfg.val(pa | pb)
    exp['xor'] = cfg.val(pa ^ pb)
    exp['not'] = cfg.val(pa ^ cfg.mask)
    # the by-reference and op-assign forms of the same operators
    exp['not_ref'] = exp['not']
    exp['self_refs'] = (a, a, 0)
    for nm in ('and', 'or', 'xor'):
        exp[nm + '_refs'] = (exp[nm], exp[nm], exp[nm])
        exp[nm + '_assign'] = (exp[nm], exp[nm])
    ones = bin(pa).count('1')
    exp['count_ones'] = ones
    exp['count_zeros'] = B - ones
    lz = B - pa.bit_length()
    tz = B if pa == 0 else (pa & -pa).bit_length() - 1
    inv = pa ^ cfg.mask
    lo = B - inv.bit_length()
    to = B if inv == 0 else (inv & -inv).bit_length() - 1
    exp['leading_zeros'] = lz
    exp['trailing_zeros'] = tz
    exp['leading_ones'] = lo
    exp['trailing_ones'] = to
    exp['bits'] = pa.bit_length()
    exp['swap_bytes'] = cfg.val(int.from_bytes(pa.to_bytes(cfg.bytes, 'little'), 'big'))
    exp['reverse_bits'] = cfg.val(_rev_bits(pa, B))
    exp['swap_bytes_twice'] = a
    exp['reverse_bits_twice'] = a
    exp['is_zero'] = a == 0
    exp['is_one'] = a == 1
    exp['bit'] = bool((pa >> i) & 1)
    ispow = a > 0 and (a & (a - 1)) == 0
    exp['is_power_of_two'] = ispow
    if not cfg.signed:
        exp['set_bit'] = (pa & ~(1 << i)) | (v << i)
        exp['power_of_two'] = 1 << i
        npo = 1 if a <= 1 else 1 << (a - 1).bit_length()
        if npo <= cfg.max:
            exp['checked_next_power_of_two'] = Some(npo)
            exp['wrapping_next_power_of_two'] = npo
        else:
            exp['checked_next_power_of_two'] = None
            exp['wrapping_next_power_of_two'] = 0
            cls.add('next_power_of_two does not fit')
        if npo == 1 << (B - 1):
            cls.add('next_power_of_two == 2^(BITS-1)')
    d = '@d%d' % cfg.dbits
    D = cfg.dbits
    for nm, c in (('leading zero', lz), ('trailing zero', tz), ('leading one', lo), ('trailing one', to)):
        if c == B:
            cls.add('all-%s pattern' % nm.split()[1])
        elif c >= 2 * D:
            cls.add('>=2 whole %s digits%s' % (nm, d))
        elif c >= D:
            cls.add('1 whole %s digit%s' % (nm, d))
    if i % D == 0 or i % D == D - 1:
        cls.add('index on a digit boundary' + d)
    if cfg.signed and a == cfg.min:
        cls.add('signed MIN (single bit set, not a power of two)')
    if not cls:
        cls.add('plain')
    return exp, cls


REQUIRED = ['all-zero pattern', 'all-one pattern', 'next_power_of_two does not fit', 'next_power_of_two == 2^(BITS-1)',
            'signed MIN (single bit set, not a power of two)'] + \
    [c + '@d%d' % d for d in (8, 16, 32, 64) for c in ('>=2 whole leading zero digits', '>=2 whole trailing zero digits',
                                                       '>=2 whole leading one digits', '>=2 whole trailing one digits',
                                                       'index on a digit boundary')]


def floors(st, tier):
    return ['class %r never observed' % c for c in REQUIRED if st['classes'].get(c, 0) == 0]


extra_passes = thorough_aux('props.c06', (), exh=True)
