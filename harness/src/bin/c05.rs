//! C05 driver: shifts and rotations. group "sh": args a:T s:u32
use bnum_verif_harness::*;

macro_rules! common_list {
    ($f:ident, $T:ty) => {
        group_fn! { $f; args; { let a: $T = args.v(0); let s = args.u32(1); };
            "shl" => a << s,
            "shr" => a >> s,
            "checked_shl" => a.checked_shl(s),
            "checked_shr" => a.checked_shr(s),
            "wrapping_shl" => a.wrapping_shl(s),
            "wrapping_shr" => a.wrapping_shr(s),
            "overflowing_shl" => a.overflowing_shl(s),
            "overflowing_shr" => a.overflowing_shr(s),
            "strict_shl" => a.strict_shl(s),
            "strict_shr" => a.strict_shr(s),
            "unbounded_shl" => a.unbounded_shl(s),
            "unbounded_shr" => a.unbounded_shr(s),
            "rotate_left" => a.rotate_left(s),
            "rotate_right" => a.rotate_right(s),
            "shl_i32" => i32::try_from(s).ok().map(|k| a << k),
            "shr_i32" => i32::try_from(s).ok().map(|k| a >> k),
            "shl_usize" => usize::try_from(s).ok().map(|k| a << k),
            "shr_usize" => usize::try_from(s).ok().map(|k| a >> k),
            "shl_i64" => Some(a << (s as i64)),
            "shr_i64" => Some(a >> (s as i64)),
            "shl_u128" => Some(a << (s as u128)),
            "shr_u128" => Some(a >> (s as u128)),
            "shl_u8" => u8::try_from(s).ok().map(|k| a << k),
            "shr_u8" => u8::try_from(s).ok().map(|k| a >> k),
            "shl_i16" => i16::try_from(s).ok().map(|k| a << k),
            "shr_i16" => i16::try_from(s).ok().map(|k| a >> k),
            "shl_i8" => i8::try_from(s).ok().map(|k| a << k),
            "shr_i8" => i8::try_from(s).ok().map(|k| a >> k),
            "shl_u16" => u16::try_from(s).ok().map(|k| a << k),
            "shr_u16" => u16::try_from(s).ok().map(|k| a >> k),
            "shl_u64" => Some(a << (s as u64)),
            "shr_u64" => Some(a >> (s as u64)),
            "shl_i128" => Some(a << (s as i128)),
            "shr_i128" => Some(a >> (s as i128)),
            "shl_isize" => isize::try_from(s).ok().map(|k| a << k),
            "shr_isize" => isize::try_from(s).ok().map(|k| a >> k),
            "rotl_then_rotr" => a.rotate_left(s).rotate_right(s),
            "rotr_then_rotl" => a.rotate_right(s).rotate_left(s),
        }
    };
}

macro_rules! body_u {
    (bnum, $T:ty, $U:ty, $S:ty $(, $rest:tt)*) => {
        common_list!(common, $T);
        group_fn! { extra; args; { let a: $T = args.v(0); let s = args.u32(1); };
            "unchecked_shl" => if s < <$T>::BITS { Some(unsafe { a.unchecked_shl(s) }) } else { None },
            "unchecked_shr" => if s < <$T>::BITS { Some(unsafe { a.unchecked_shr(s) }) } else { None },
        }
        pub fn run(g: &str, args: &Args, out: &mut String) -> bool {
            match g { "sh" => { common(args, out); extra(args, out); true } _ => false }
        }
    };
    (prim, $T:ty, $U:ty, $S:ty $(, $rest:tt)*) => {
        common_list!(common, $T);
        pub fn run(g: &str, args: &Args, out: &mut String) -> bool {
            match g { "sh" => { common(args, out); true } _ => false }
        }
    };
}

for_cfgs!(gen_mods; run_bnum, bnum, body_u, body_u);
for_prims!(gen_mods; run_prim, prim, body_u, body_u);

fn run(cfg: &str, g: &str, args: &Args, out: &mut String) -> bool {
    run_bnum(cfg, g, args, out) || run_prim(cfg, g, args, out)
}

fn main() {
    main_loop("C05", run);
}
