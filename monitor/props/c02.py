"""C02 — multiplication: low half, overflow flag, full double-width product."""
import core
import gen
from core import PANIC, opt
from props.common import thorough_aux, default_encode, default_decode, split_range

PROP = 'C02'
BIN = 'c02'
SIG = {'mul': 'xxx'}
encode = default_encode(SIG)
decode = default_decode(SIG)
TASK_REQS = 2500
RULE = ('requests (a, b, carry word): structured operand families; a = ceil(2^BITS / b) +- 1 (overflow by one bit); two-limb operands whose cross term a0*b1 + a1*b0 is exactly 2^(2L) for limb sizes L = digit, 16, 32, 64; leading digits ta, tb with ta*tb .. (ta+1)*(tb+1) in B-2..B+2 (every factorisation of those five numbers) at operand lengths adding up to N or N+1; single-digit '
        'operands at digit positions i, j with i + j in {N-2, N-1, N} (the in/out-of-range column boundary); signed magnitude '
        '2^(BITS-1) with every sign combination, MIN * +-1, (MAX/k)*k; MAX*MAX+MAX; all 2^16 pairs at 8 bits. Non-trivial: the '
        'product overflows, is exactly MIN, has full width without overflowing, or overflows only through the last row carry; '
        'distinct = distinct request lines')


def configs(tier):
    return core.cfg_names(full=(tier == 'thorough'))


def budget(cfg, tier):
    base = 3000 if tier == 'quick' else 30000
    if cfg.bits == 8:
        return 65536 if tier == 'quick' else 65536 * 4
    if cfg.n >= 1024:
        return 60 if tier == 'quick' else 300
    if cfg.n >= 128:
        return base // 10
    return base


CARRIES8 = (0, 1, 2, 127, 128, 254, 255, 77)


def requests(cfg, rng, n, tier, part, nparts, st):
    if cfg.bits == 8:
        total = 65536 if tier == 'quick' else 65536 * 4
        lo, hi = split_range(total, part, nparts)
        for i in range(lo, hi):
            a = cfg.val(i & 255)
            b = cfg.val((i >> 8) & 255)
            if tier == 'quick':
                c = CARRIES8[((i * 2654435761) >> 9) & 7]
            else:
                c = CARRIES8[((i >> 16) & 3) * 2 + (((i * 2654435761) >> 9) & 1)]
            yield 'mul', (a, b, cfg.val(c))
        st['exhaustive'].append('%s: all 2^16 operand pairs' % cfg.name)
        return
    D = cfg.dbits
    N = cfg.n
    for _ in range(n):
        r = rng.random()
        c = rng.choice((0, 1, cfg.max, cfg.mask, gen.value(cfg, rng), gen.value(cfg, rng)))
        if r < 0.22:
            a, b = gen.pair(cfg, rng)
        elif r < 0.25:
            a, b = gen.cross_term_pair(cfg, rng)
            if cfg.signed:
                a, b = cfg.val(a), cfg.val(b)
        elif r < 0.30:
            # leading digits whose product (or the product of their successors) is B-2 .. B+2: the exact boundary of any bound that decides
            # from the leading digits alone whether the product fits
            a, b = gen.leading_product_pair(cfg, rng)
            if cfg.signed:
                if rng.random() < 0.3:
                    a = -a
                if rng.random() < 0.3:
                    b = -b
        elif r < 0.55:
            # product lands next to the representability boundary
            b = gen.short(cfg, rng) if rng.random() < 0.7 else gen.value(cfg, rng)
            if b == 0:
                b = 3
            M = rng.choice((cfg.mod, cfg.mod >> 1, cfg.mod - 1, (cfg.mod >> 1) + 1))
            a = M // abs(b) + rng.choice((-1, 0, 0, 1, 1))
            if M % abs(b) == 0 and rng.random() < 0.5:
                a = M // abs(b)
            if cfg.signed and rng.random() < 0.5:
                a = -a
        elif r < 0.80:
            # single (or double) digit operands at chosen digit positions
            i = rng.randrange(N)
            j = min(N - 1, max(0, rng.choice((N - 2, N - 1, N - 1, N)) - i))
            da = rng.choice((cfg.B - 1, cfg.B >> 1, 1, 2, rng.getrandbits(D) | 1, rng.getrandbits(D) | 1))
            db = rng.choice((cfg.B - 1, cfg.B >> 1, 1, 2, rng.getrandbits(D) | 1, rng.getrandbits(D) | 1))
            a = da << (D * i)
            b = db << (D * j)
            if rng.random() < 0.4:
                a |= rng.getrandbits(D * i) if i else 0
            if rng.random() < 0.4:
                b |= rng.getrandbits(D * j) if j else 0
            if cfg.signed:
                if rng.random() < 0.5:
                    a = -a
                if rng.random() < 0.5:
                    b = -b
        elif r < 0.90 and cfg.signed:
            k = rng.randrange(cfg.bits)
            a = rng.choice((1, -1)) * (1 << k)
            b = rng.choice((1, -1)) * (1 << (cfg.bits - 1 - k))
            if rng.random() < 0.3:
                a, b = cfg.min, rng.choice((1, -1, 2, 0, -2))
            elif rng.random() < 0.3:
                k = rng.choice((2, 3, 5, 7, 10, 255, 65537))
                a, b = cfg.max // k, k * rng.choice((1, -1))
        else:
            a = rng.choice((cfg.max, cfg.min, cfg.mask, cfg.max - 1, gen.extreme_digits(cfg, rng)))
            b = rng.choice((cfg.max, cfg.min, cfg.mask, cfg.max - 1, gen.extreme_digits(cfg, rng)))
        if rng.random() < 0.5:
            a, b = b, a
        yield 'mul', (cfg.wrap(a), cfg.wrap(b), cfg.wrap(c))


def top_digit_index(cfg, mag):
    return (mag.bit_length() - 1) // cfg.dbits if mag else -1


def model(cfg, ctx, group, args):
    a, b, c = args
    exp = {}
    cls = set()
    p = a * b
    v = cfg.wrap(p)
    o = not cfg.fits(p)
    exp['overflowing_mul'] = (v, o)
    exp['checked_mul'] = opt(o, v)
    exp['wrapping_mul'] = v
    exp['saturating_mul'] = cfg.clamp(p)
    exp['strict_mul'] = PANIC if o else v
    exp['unchecked_mul'] = opt(o, v)
    d = '@d%d' % cfg.dbits
    if not cfg.signed:
        exp['widening_mul'] = (p & cfg.mask, p >> cfg.bits)
        cu = cfg.pat(c)
        q = p + cu
        exp['carrying_mul'] = (q & cfg.mask, q >> cfg.bits)
        if (q & cfg.mask) < (p & cfg.mask):
            cls.add('carrying_mul: carry word overflows the low half')
        if (p >> cfg.bits) == cfg.mask - 1 or (q >> cfg.bits) == cfg.mask:
            cls.add('widening: high half at its maximum')
    ma, mb = abs(a), abs(b)
    ia, ib = top_digit_index(cfg, ma), top_digit_index(cfg, mb)
    if o:
        cls.add('overflow ' + ('above' if p > 0 else 'below'))
        lim = cfg.bits if not cfg.signed else cfg.bits - 1
        if abs(p).bit_length() == lim + 1 or (cfg.signed and p > 0 and p == 1 << lim):
            cls.add('overflow by exactly one bit' + d)
        if cfg.n >= 2 and ia + ib == cfg.n - 1 and abs(p).bit_length() > cfg.bits:
            cls.add('overflow only via the last row carry' + d)
        if cfg.n >= 2 and ia + ib >= cfg.n:
            cls.add('overflow via out-of-range column' + d)
        if cfg.signed and abs(p).bit_length() <= cfg.bits:
            cls.add('signed overflow inside the unsigned range (sign bit)')
    else:
        if cfg.n >= 2 and abs(p).bit_length() >= (cfg.bits if not cfg.signed else cfg.bits - 1):
            cls.add('no overflow, full-width result' + d)
        if cfg.signed and p == cfg.min:
            cls.add('signed product exactly MIN')
    if cfg.signed and a and b:
        cls.add('plain:signs ' + ('-' if a < 0 else '+') + ('-' if b < 0 else '+'))
    if cfg.signed and (a == cfg.min or b == cfg.min):
        cls.add('operand MIN')
    if not cls:
        cls.add('plain')
    return exp, cls


REQUIRED = ['overflow above', 'overflow below', 'signed product exactly MIN', 'operand MIN', 'signed overflow inside the unsigned range (sign bit)',
            'carrying_mul: carry word overflows the low half', 'plain:signs --', 'plain:signs +-'] + \
    [c + '@d%d' % d for d in (8, 16, 32, 64) for c in ('overflow by exactly one bit', 'overflow only via the last row carry',
                                                       'overflow via out-of-range column', 'no overflow, full-width result')]


def floors(st, tier):
    return ['class %r never observed' % c for c in REQUIRED if st['classes'].get(c, 0) == 0]


extra_passes = thorough_aux('props.c02', ('miri',), exh=True)
