"""C20 — random generation stays in range, is unbiased by construction, fills every bit."""
import core
import gen
from core import Pred, ANY
from props.common import split_range

PROP = 'C20'
BIN = 'c20'
DENSE = {'quick': {8: 16, 16: 16, 32: 16, 64: 16}, 'thorough': {8: 64, 16: 64, 32: 64, 64: 64}}   # bounded by the build time of this driver
TASK_REQS = 400
TIMEOUT = 2700   # watchdog per task (word-space probes on the 8192-bit types are the slowest requests)
METHODS = ['gen_range', 'gen_range_inclusive', 'uniform', 'uniform_inclusive', 'sample_single', 'sample_single_inclusive']
RULE = ('a scripted RNG replays chosen word streams and records what is consumed. (i) every draw of gen_range / gen_range_inclusive / '
        'Uniform / sample_single(_inclusive) must lie in the requested range: bounds of size 1, 2, 2^k, 2^k+-1, the full range, signed '
        'ranges spanning zero, low = MIN, high = MAX; words random, extreme, and placed around the acceptance thresholds. (ii) '
        'unbiasedness by counting: for 8-bit types all 256 range sizes, for 16-bit types ~25-60 range sizes, for the 24-bit type a few '
        '(thorough) are enumerated over ALL first words of the type; the number of accepted first words per value must be equal and '
        'nothing may fall outside; on every wider type, for ranges of 1..40 values and every method, the word space is partitioned by binary search into the interval of accepted first words of each value (release build) and the interval lengths must be equal. (iii) Standard / try_fill_slice / sub-slices: output bytes must equal the served bytes in order, '
        'exactly len*BYTES consumed, neighbours untouched; one slice of more than 2^32 bits (> 512 MiB, verified inside the driver). Non-trivial: a first word was rejected, the range is full / a power of two '
        '+-1 / spans zero, histograms, slice fills of length != 1; distinct = distinct request lines')
ASSUMPTIONS = ['unbiasedness is decided by exhaustive preimage counting on the 8/16/24-bit instantiations. On wider types it is decided for small ranges '
               '(1..40 values) by the word-space probe, which presupposes that the accepted first words of each value form one interval (located by binary '
               'search, confirmed on >= 200 sample words and the neighbourhood of every interval end); where that structure is not found nothing is judged. '
               'Large ranges on wide types get range membership, byte-exact Standard/Fill checks and agreement across digit types (C16) only']


def configs(tier):
    return core.cfg_names(full=(tier == 'thorough'))


def budget(cfg, tier):
    if cfg.bits == 8:
        return 256 * 6 + 600
    if cfg.bits == 16:
        return (30 * 3 if tier == 'quick' else 70 * 6) + 600
    if cfg.bits == 24:
        return (4 if tier == 'quick' else 8) + 600
    if cfg.n >= 1024:
        return 60
    return 600 if tier == 'quick' else 6000


def mode_filter(cfg, group, mode):
    # 24-bit histograms (2^24 draws each) and the > 512 MiB slice fill only in the release build
    return not ((group == 'hist' and cfg.bits == 24 and mode != 'rel') or (group in ('bigfill', 'wprobe') and mode != 'rel'))


def encode(cfg, group, args):
    if group == 'range':
        return [cfg.hex(args[0]), cfg.hex(args[1]), 's' + bytes(args[2]).hex()]
    if group == 'hist':
        return [cfg.hex(args[0]), cfg.hex(args[1]), 'd%d' % args[2]]
    if group == 'wprobe':
        return [cfg.hex(args[0]), cfg.hex(args[1])] + ['d%d' % a for a in args[2:]]
    if group == 'std':
        return ['s' + bytes(args[0]).hex()]
    if group == 'bigfill':
        return ['d%d' % args[0]]
    return ['s' + bytes(args[0]).hex(), 'd%d' % args[1]]


def decode(cfg, group, toks):
    if group == 'range':
        return (cfg.val(int(toks[0][1:], 16)), cfg.val(int(toks[1][1:], 16)), bytes.fromhex(toks[2][1:]))
    if group == 'hist':
        return (cfg.val(int(toks[0][1:], 16)), cfg.val(int(toks[1][1:], 16)), int(toks[2][1:]))
    if group == 'wprobe':
        return (cfg.val(int(toks[0][1:], 16)), cfg.val(int(toks[1][1:], 16))) + tuple(int(t[1:]) for t in toks[2:])
    if group == 'std':
        return (bytes.fromhex(toks[0][1:]),)
    if group == 'bigfill':
        return (int(toks[0][1:]),)
    return (bytes.fromhex(toks[0][1:]), int(toks[1][1:]))


def bounds(cfg, rng):
    r = rng.random()
    span = cfg.max - cfg.min
    if r < 0.12:
        size = rng.choice((1, 2, 3))
    elif r < 0.45:
        k = rng.randrange(1, cfg.bits + 1)
        size = (1 << k) + rng.choice((-1, 0, 1))
    elif r < 0.55:
        size = span + 1 - rng.choice((0, 0, 1, 2))
    elif r < 0.7:
        size = rng.getrandbits(rng.randrange(1, cfg.bits + 1)) + 1
    else:
        size = abs(gen.value(cfg.U(), rng)) + 1
    size = max(1, min(size, span + 1))
    lr = rng.random()
    if lr < 0.25:
        low = cfg.min
    elif lr < 0.5:
        low = cfg.max - (size - 1)
    elif lr < 0.7 and cfg.signed:
        low = -rng.randrange(0, size)       # spans zero
        low = max(cfg.min, min(low, cfg.max - (size - 1)))
    else:
        low = rng.randrange(cfg.min, cfg.max - (size - 1) + 1)
    return low, low + size - 1


def words_for(cfg, rng, low, high):
    W = cfg.bits
    size = high - low + 1
    out = b''
    for _ in range(3):
        r = rng.random()
        if r < 0.3:
            v = rng.getrandbits(W)
        elif r < 0.45:
            v = rng.choice((0, cfg.mask, 1, cfg.mask - 1, cfg.mod >> 1))
        else:
            k = rng.randrange(0, size)
            v = -(-(k << W) // size) + rng.choice((-1, 0, 0, 1, (1 << W) // size - 1 if size <= (1 << W) else 0, (1 << W) // size))
            v %= cfg.mod
        out += v.to_bytes(cfg.bytes, 'little')
    return out


def requests(cfg, rng, n, tier, part, nparts, st):
    nh = 0
    if cfg.bits == 8:
        lo, hi = split_range(256 * 6, part, nparts)
        for i in range(lo, hi):
            size = (i // 6) + 1
            low = cfg.min + ((i * 37) % (257 - size))
            yield 'hist', (low, low + size - 1, i % 6)
        st['exhaustive'].append('%s: all 256 range sizes x 6 methods x all 256 first words' % cfg.name)
        nh = 256 * 6
    elif cfg.bits == 16:
        sizes = [1, 2, 3, 4, 5, 7, 8, 9, 255, 256, 257, 1000, 4095, 4096, 4097, 21845, 32767, 32768, 32769, 43691, 65534, 65535, 65536]
        rr = __import__('random').Random('c20' + cfg.name)
        sizes += [rr.randrange(1, 65537) for _ in range(7 if tier == 'quick' else 47)]
        per = 3 if tier == 'quick' else 6
        total = len(sizes) * per
        lo, hi = split_range(total, part, nparts)
        for i in range(lo, hi):
            size = sizes[i // per]
            low = cfg.min + (i * 7919) % (65537 - size)
            m = (i % per) if per == 6 else ((i // per) + (i % per) * 2) % 6
            yield 'hist', (low, low + size - 1, m)
        st['exhaustive'].append('%s: %d range sizes x %d methods x all 2^16 first words' % (cfg.name, len(sizes), per))
        nh = total
    elif cfg.bits == 24 and part == 0:
        # the smallest width that takes the > 16-bit zone formula of sample_single; release build only (2^24 draws per request)
        sizes24 = (3, 2 ** 16 + 1, 2 ** 23 + 1, 2 ** 24 - 1, 12345678, 2 ** 20, 5, 2 ** 24)
        if tier == 'quick':
            sizes24 = sizes24[:4]
        for k, size in enumerate(sizes24):
            low = cfg.min + (k * 104729) % (2 ** 24 + 1 - size)
            yield 'hist', (low, low + size - 1, (4, 5, 1, 3, 0, 2, 5, 1)[k])
        st['exhaustive'].append('%s: %d range sizes x all 2^24 first words (release build)' % (cfg.name, len(sizes24)))
    m = max(10, (n - nh) // 3) if part == 0 or cfg.bits > 24 else 0
    if cfg.bits <= 24 and part != 0:
        return
    for _ in range(m):
        low, high = bounds(cfg, rng)
        yield 'range', (low, high, words_for(cfg, rng, low, high))
    if cfg.bits >= 24:
        # word-space probes (release build): small ranges on wide types, every method; the size is bounded by the cost of 2*s*BITS draws
        # a draw costs about N^2 digit products (one widening multiplication): keep a probe below ~2*10^10 of them
        smax = max(1, min(40, 30000 // cfg.bits, int(2e10 // (2 * cfg.bits * cfg.n * cfg.n))))
        for j in range(6 if (tier == 'quick' or cfg.bits * cfg.n * cfg.n > 2e8) else 24):
            size = rng.choice([x for x in (1, 2, 3, 5, 6, 7, 10, 12, 16, 17, 31, 33, 40) if x <= smax])
            lr = rng.random()
            if lr < 0.3:
                low = cfg.min
            elif lr < 0.55:
                low = cfg.max - (size - 1)
            elif lr < 0.8 and cfg.signed:
                low = -rng.randrange(0, size)
            else:
                low = rng.randrange(cfg.min, cfg.max - size + 2)
            method = (j + part) % 6
            high = low + size - 1 + (0 if method % 2 == 1 else 1)
            if high > cfg.max:
                low -= 1
                high -= 1
            yield 'wprobe', (low, high, method, size, 200, rng.getrandbits(40))
    B = cfg.bytes
    for _ in range(max(5, m // 2)):
        yield 'std', (bytes(rng.getrandbits(8) for _ in range(2 * B)) if rng.random() < 0.8 else rng.choice((b'\x00', b'\xff', b'\x80', b'\x01')) * (2 * B),)
    if cfg.name in ('u64x128', 'i8x260') and part == 0:
        # one slice of more than 2^32 bits (512 MiB + a little): length arithmetic in 32 bits would wrap
        yield 'bigfill', ((1 << 29) + 4096 * rng.randrange(1, 9),)
    for _ in range(max(5, m // 2)):
        L = rng.choice((0, 1, 2, 3, 7, 8, 64 if B <= 64 else 3))
        yield 'fill', (bytes(rng.getrandbits(8) for _ in range(L * B)), L)


def model(cfg, ctx, group, args):
    exp = {}
    cls = set()
    B = cfg.bytes
    if group == 'range':
        low, high, words = args
        size = high - low + 1

        def chk(inclusive):
            def f(o):
                if not (isinstance(o, tuple) and len(o) == 3 and isinstance(o[0], core.X)):
                    return False
                v = cfg.val(o[0].p)
                ok = low <= v <= high if inclusive else low <= v < high
                return ok and o[1] == o[2] * B and o[2] >= 1
            return f
        for i, m in enumerate(METHODS):
            inclusive = i % 2 == 1
            if not inclusive and low >= high:
                exp[m] = ANY   # empty half-open range: rand's contract is to panic; not part of the property
            else:
                exp[m] = Pred(chk(inclusive), 'value in [%d, %d%s and bytes served == calls * BYTES' % (low, high, ']' if inclusive else ')'))
        exp['uniform_reused'] = Pred(lambda o: isinstance(o, tuple) and all(isinstance(x, core.X) and low <= cfg.val(x.p) <= high for x in o), 'both draws in range')
        if size == cfg.mod:
            cls.add('full range (range size wraps to zero)')
        elif size & (size - 1) == 0:
            cls.add('range size a power of two')
        elif (size - 1) & (size - 2) == 0 or (size + 1) & size == 0:
            cls.add('range size 2^k +- 1')
        if size == 1:
            cls.add('range of a single value')
        if cfg.signed and low < 0 <= high:
            cls.add('signed range spanning zero')
        if low == cfg.min or high == cfg.max:
            cls.add('range touching MIN or MAX')

        def rel(seen):
            out = []
            rej = 0
            for m in METHODS:
                o = seen.get(m)
                if isinstance(o, tuple) and len(o) == 3 and isinstance(o[2], int) and o[2] > 1:
                    rej += 1
            if rej:
                out.append(('observed: a first word was rejected', True, ''))
            return out
        return exp, cls, rel
    if group == 'hist':
        low, high, method = args
        inclusive = method % 2 == 1
        size = high - low + (1 if inclusive else 0)
        total = 1 << cfg.bits

        def f(o):
            try:
                accepted, rejected, (outside, hit, (minc, maxc)) = o
            except Exception:
                return False
            if size <= 0:
                return True
            return (accepted + rejected == total and outside == 0 and hit == size and minc == maxc and minc >= 1 and accepted == hit * minc)
        exp['hist'] = ANY if size <= 0 else Pred(f, 'all %d first words: none outside [%d..%d], every one of the %d values hit by the same number of accepted words' % (total, low, high, size))
        cls.add('preimage histogram over all first words (%d-bit)' % cfg.bits)
        if size == total:
            cls.add('histogram: full range')
        return exp, cls
    if group == 'wprobe':
        low, high, method, size, ns, sd = args
        info = {}

        def parse(o):
            draws, (recognised, bad, first_bad), blob = o
            recs = []
            step = 1 + 2 * B
            for k in range(size):
                c = blob[k * step:(k + 1) * step]
                recs.append((c[0] == 1, int.from_bytes(c[1:1 + B], 'little'), int.from_bytes(c[1 + B:], 'little')))
            return draws, recognised, bad, recs

        def f(o):
            try:
                draws, recognised, bad, recs = parse(o)
            except Exception:
                return False
            if not recognised or bad or not all(r[0] for r in recs):
                return True     # the interval structure was not found: nothing is judged (see rel below, which records it)
            lens = {b - a + 1 for _, a, b in recs}
            return len(lens) == 1

        def rel(seen):
            o = seen.get('wprobe')
            try:
                draws, recognised, bad, recs = parse(o)
            except Exception:
                return []
            if recognised and not bad and all(r[0] for r in recs):
                eq = len({b - a + 1 for _, a, b in recs}) == 1
                return [('observed: word space of a %s type partitioned into %s intervals of accepted first words, one per value' % (
                    'wide (> 64-bit)' if cfg.bits > 64 else ('24-bit' if cfg.bits == 24 else '<= 64-bit'), 'equal' if eq else 'UNEQUAL'), True, '')]
            return [('observed: word-space structure not recognised (nothing judged)', True, '')]
        exp['wprobe'] = Pred(f, 'if the accepted first words of every value form one interval each (located by binary search over the %d-bit word space and '
                                'confirmed on sample words), all %d intervals have the same length' % (cfg.bits, size))
        cls.add('word-space probe: range of %s on a %s type' % ('1 value' if size == 1 else ('2..7 values' if size <= 7 else '>= 8 values'),
                                                                  '> 64-bit' if cfg.bits > 64 else '<= 64-bit'))
        return exp, cls, rel
    if group == 'std':
        (words,) = args
        v = int.from_bytes(words[:B], 'little')
        v2 = int.from_bytes(words[B:2 * B], 'little')
        exp['standard'] = (cfg.val(v), B, Pred(lambda c: isinstance(c, int) and c >= 1, 'calls >= 1'))
        exp['standard_twice'] = (cfg.val(v), cfg.val(v2), 2 * B)
        cls.add('Standard: value is the little-endian integer of the served bytes')
        return exp, cls
    if group == 'bigfill':
        (total,) = args
        L = -(-total // B)
        exp['try_fill_slice_big'] = (True, L, (L * B, L))
        cls.add('slice fill of more than 2^32 bits')
        return exp, cls
    words, L = args
    want = words[:L * B]
    for k in ('try_fill_slice', 'gen_each', 'try_fill_subslice'):
        exp[k] = (True, want, L * B)
    cls.add('slice fill of length %s' % (L if L in (0, 1) else '>= 2'))
    return exp, cls


REQUIRED = ['full range (range size wraps to zero)', 'range size a power of two', 'range size 2^k +- 1', 'range of a single value',
            'signed range spanning zero', 'range touching MIN or MAX', 'preimage histogram over all first words (8-bit)',
            'preimage histogram over all first words (16-bit)', 'histogram: full range',
            'Standard: value is the little-endian integer of the served bytes', 'slice fill of length 0', 'slice fill of length 1', 'slice fill of length >= 2', 'slice fill of more than 2^32 bits']


def floors(st, tier):
    out = ['class %r never observed' % c for c in REQUIRED if st['classes'].get(c, 0) == 0]
    if st['ops'].get('observed: a first word was rejected', 0) == 0:
        out.append('no rejected first word was ever observed')
    if st['classes'].get('preimage histogram over all first words (24-bit)', 0) == 0:
        out.append('24-bit histograms not observed')
    return out


def _aux_requests(cfg, rng, n):
    """small mixed workload for the interpreter / sanitizer passes: slice fills of length 0, 1, 7, 64, Standard, ranges"""
    B = cfg.bytes
    k = 0
    while k < n:
        for L in (0, 1, 7, 64 if B <= 40 else 2):
            yield 'fill', (bytes(rng.getrandbits(8) for _ in range(L * B)), L)
            k += 1
        yield 'std', (bytes(rng.getrandbits(8) for _ in range(2 * B)),)
        low, high = bounds(cfg, rng)
        yield 'range', (low, high, words_for(cfg, rng, low, high))
        k += 2


def extra_passes(runmod, tier, seed, st, jobs):
    import aux
    cov = {}
    small = [c for c in configs(tier) if core.Cfg(c).bits <= 512]
    # ASan: full speed, every configuration
    cov['asan_pass'] = aux.run_pass(runmod, __import__('props.c20', fromlist=['x']), 'asan', tier, seed, st, configs(tier), 60 if tier == 'quick' else 600, jobs,
                                    reqgen=_aux_requests)
    if tier == 'thorough':
        me = __import__('props.c20', fromlist=['x'])
        cov['miri_pass'] = aux.run_pass(runmod, me, 'miri', tier, seed, st, small, 40, jobs, reqgen=_aux_requests, chunk=40)
        cov['miri_big_endian_pass'] = aux.run_pass(runmod, me, 'miri-be', tier, seed, st, small, 40, jobs, reqgen=_aux_requests, chunk=40)
    return cov
