//! C06 driver: bitwise logic, counts, bit manipulation. group "bits": args a:T b:T i:u32(<BITS) v:bool
use bnum_verif_harness::*;

macro_rules! common_list {
    ($f:ident, $T:ty) => {
        group_fn! { $f; args; { let a: $T = args.v(0); let b: $T = args.v(1); };
            "and" => a & b,
            "or" => a | b,
            "xor" => a ^ b,
            "not" => !a,
            "and_refs" => (&a & &b, a & &b, &a & b),
            "or_refs" => (&a | &b, a | &b, &a | b),
            "xor_refs" => (&a ^ &b, a ^ &b, &a ^ b),
            "not_ref" => !&a,
            // both operands are the same object (an implementation may compare addresses): (a & a, a | a, a ^ a) must be (a, a, 0)
            "self_refs" => (&a & &a, &a | &a, &a ^ &a),
            "and_assign" => { let mut x = a; x &= b; let mut y = a; y &= &b; (x, y) },
            "or_assign" => { let mut x = a; x |= b; let mut y = a; y |= &b; (x, y) },
            "xor_assign" => { let mut x = a; x ^= b; let mut y = a; y ^= &b; (x, y) },
            "count_ones" => a.count_ones(),
            "count_zeros" => a.count_zeros(),
            "leading_zeros" => a.leading_zeros(),
            "trailing_zeros" => a.trailing_zeros(),
            "leading_ones" => a.leading_ones(),
            "trailing_ones" => a.trailing_ones(),
            "swap_bytes" => a.swap_bytes(),
            "reverse_bits" => a.reverse_bits(),
            "swap_bytes_twice" => a.swap_bytes().swap_bytes(),
            "reverse_bits_twice" => a.reverse_bits().reverse_bits(),
        }
    };
}
macro_rules! unsigned_list {
    ($f:ident, $T:ty) => {
        group_fn! { $f; args; { let a: $T = args.v(0); };
            "is_power_of_two" => a.is_power_of_two(),
            "checked_next_power_of_two" => a.checked_next_power_of_two(),
        }
    };
}

macro_rules! body_u {
    (bnum, $T:ty, $U:ty, $S:ty $(, $rest:tt)*) => {
        common_list!(common, $T);
        unsigned_list!(uns, $T);
        group_fn! { extra; args; { let a: $T = args.v(0); let i = args.u32(2); let v = args.bool(3); };
            "wrapping_next_power_of_two" => a.wrapping_next_power_of_two(),
            "bits" => a.bits(),
            "bit" => a.bit(i),
            "set_bit" => { let mut x = a; x.set_bit(i, v); x },
            "power_of_two" => <$T>::power_of_two(i),
            "is_zero" => a.is_zero(),
            "is_one" => a.is_one(),
        }
        pub fn run(g: &str, args: &Args, out: &mut String) -> bool {
            match g { "bits" => { common(args, out); uns(args, out); extra(args, out); true } _ => false }
        }
    };
    (prim, $T:ty, $U:ty, $S:ty $(, $rest:tt)*) => {
        common_list!(common, $T);
        unsigned_list!(uns, $T);
        pub fn run(g: &str, args: &Args, out: &mut String) -> bool {
            match g { "bits" => { common(args, out); uns(args, out); true } _ => false }
        }
    };
}
macro_rules! body_i {
    (bnum, $T:ty, $U:ty, $S:ty $(, $rest:tt)*) => {
        common_list!(common, $T);
        group_fn! { extra; args; { let a: $T = args.v(0); let i = args.u32(2); };
            "is_power_of_two" => a.is_power_of_two(),
            "bits" => a.bits(),
            "bit" => a.bit(i),
            "is_zero" => a.is_zero(),
            "is_one" => a.is_one(),
        }
        pub fn run(g: &str, args: &Args, out: &mut String) -> bool {
            match g { "bits" => { common(args, out); extra(args, out); true } _ => false }
        }
    };
    (prim, $T:ty, $U:ty, $S:ty $(, $rest:tt)*) => {
        common_list!(common, $T);
        pub fn run(g: &str, args: &Args, out: &mut String) -> bool {
            match g { "bits" => { common(args, out); true } _ => false }
        }
    };
}

for_cfgs!(gen_mods; run_bnum, bnum, body_u, body_i);
for_prims!(gen_mods; run_prim, prim, body_u, body_i);

fn run(cfg: &str, g: &str, args: &Args, out: &mut String) -> bool {
    run_bnum(cfg, g, args, out) || run_prim(cfg, g, args, out)
}

fn main() {
    main_loop("C06", run);
}
