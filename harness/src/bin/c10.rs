//! C10 driver: parsing. group "ps": args s:bytes r:u32 ; group "pd": args digits:bytes r:u32
use bnum_verif_harness::*;
use core::str::FromStr;

macro_rules! body {
    (bnum, $T:ty, $U:ty, $S:ty $(, $rest:tt)*) => {
        body!(@common $T);
        group_fn! { extra; args; { let b = args.bytes(0); let r = args.u32(1); let s = std::str::from_utf8(b).ok(); };
            "parse_bytes" => <$T>::parse_bytes(b, r),
            "parse_str_radix" => s.map(|s| <$T>::parse_str_radix(s, r)),
        }
        group_fn! { digs; args; { let b = args.bytes(0); let r = args.u32(1); };
            "from_radix_be" => <$T>::from_radix_be(b, r),
            "from_radix_le" => <$T>::from_radix_le(b, r),
        }
        pub fn run(g: &str, args: &Args, out: &mut String) -> bool {
            match g { "ps" => { common(args, out); extra(args, out); true } "pd" => { digs(args, out); true } _ => false }
        }
    };
    (prim, $T:ty, $U:ty, $S:ty $(, $rest:tt)*) => {
        body!(@common $T);
        pub fn run(g: &str, args: &Args, out: &mut String) -> bool {
            match g { "ps" => { common(args, out); true } _ => false }
        }
    };
    (@common $T:ty) => {
        group_fn! { common; args; { let b = args.bytes(0); let r = args.u32(1); let s = std::str::from_utf8(b).ok(); };
            "from_str_radix" => s.map(|s| <$T>::from_str_radix(s, r)),
            "from_str" => s.map(|s| <$T as FromStr>::from_str(s)),
        }
    };
}

for_cfgs!(gen_mods; run_bnum, bnum, body, body);
for_prims!(gen_mods; run_prim, prim, body, body);

fn run(cfg: &str, g: &str, args: &Args, out: &mut String) -> bool {
    run_bnum(cfg, g, args, out) || run_prim(cfg, g, args, out)
}

fn main() {
    main_loop("C10", run);
}
