"""Hostile input generators (DESIGN.md §5).  All return Python ints that are *values in
the configuration's range* (signed for signed configurations) unless said otherwise."""


def uniform(cfg, rng):
    return cfg.wrap(rng.getrandbits(cfg.bits))


def extreme_digits(cfg, rng):
    """family 1: every digit from {0, MAX, 1, MAX-1, top bit, top bit - 1, random}, biased to 0/MAX"""
    B = cfg.B
    p = 0
    # a run structure makes long carry chains likely: pick a 'mood' and keep it for a while
    mood = rng.randrange(7)
    for i in range(cfg.n):
        if rng.random() < 0.35:
            mood = rng.randrange(9)
        if mood in (0, 7):
            d = 0
        elif mood in (1, 8):
            d = B - 1
        elif mood == 2:
            d = 1
        elif mood == 3:
            d = B - 2
        elif mood == 4:
            d = B >> 1
        elif mood == 5:
            d = (B >> 1) - 1
        else:
            d = rng.getrandbits(cfg.dbits)
        p |= d << (cfg.dbits * i)
    return cfg.wrap(p)


def pick_bitpos(cfg, rng):
    """bit index concentrated on digit boundaries and the top of the type"""
    r = rng.random()
    if r < 0.45:
        k = cfg.dbits * rng.randrange(cfg.n + 1) + rng.choice((-2, -1, 0, 1))
    elif r < 0.6:
        k = cfg.bits - rng.choice((1, 2, 3))
    else:
        k = rng.randrange(cfg.bits)
    return min(max(k, 0), cfg.bits - 1)


def boundary(cfg, rng):
    """family 2"""
    r = rng.randrange(16)
    if r >= 14:
        # the bounds of the primitive integer types, embedded in a (possibly wider) bnum value: fast paths through u64/u128/i128 switch there
        k = rng.choice((7, 8, 15, 16, 31, 32, 63, 64, 127, 128))
        v = rng.choice((1, -1)) * ((1 << k) + rng.choice((-1, 0, 0, 1)))
        return cfg.wrap(v)
    if r == 0:
        v = rng.choice((0, 1, 2, 3))
    elif r == 1:
        v = cfg.max - rng.choice((0, 1, 2))
    elif r == 2:
        v = cfg.min + rng.choice((0, 1, 2))
    elif r == 3:
        v = -rng.choice((1, 2, 3))
    else:
        k = pick_bitpos(cfg, rng)
        v = (1 << k) + rng.choice((-1, 0, 0, 1))
        if r >= 9:
            v = -v
    return cfg.wrap(v)


def sparse(cfg, rng):
    """family 3: one or two bits set, or one or two bits cleared"""
    p = 0
    for _ in range(rng.choice((1, 2, 2, 3))):
        p |= 1 << pick_bitpos(cfg, rng)
    if rng.random() < 0.5:
        p ^= cfg.mask
    return cfg.wrap(p)


def short(cfg, rng):
    """family 4: only the low j digits non-zero (sign-extended for negative signed values)"""
    j = rng.randrange(1, cfg.n + 1)
    p = rng.getrandbits(cfg.dbits * j)
    if rng.random() < 0.3:
        p |= 1 << (cfg.dbits * j - 1)  # top digit of the short value normalised
    if cfg.signed and rng.random() < 0.4:
        return cfg.wrap(-p)
    return cfg.wrap(p)


def periodic(cfg, rng):
    """the same digit (or two alternating digits) in every position: 0x0101.., 0x8080.., 0x5555.., single-bit digits, ..."""
    B, D = cfg.B, cfg.dbits
    def one():
        c = rng.randrange(7)
        if c == 0:
            return 1
        if c == 1:
            return B >> 1
        if c == 2:
            return 1 << rng.randrange(D)
        if c == 3:
            return (B - 1) // 3          # 0x55..
        if c == 4:
            return (B - 1) // 3 * 2      # 0xaa..
        if c == 5:
            return B - 1 - (1 << rng.randrange(D))
        return rng.getrandbits(D)
    a, b = one(), one()
    if rng.random() < 0.6:
        b = a
    p = 0
    for i in range(cfg.n):
        p |= (a if i % 2 == 0 else b) << (D * i)
    if rng.random() < 0.25:   # with one digit disturbed
        i = rng.randrange(cfg.n)
        p ^= rng.choice((1, B >> 1, B - 1)) << (D * i)
    return cfg.wrap(p)


def value(cfg, rng):
    """the standard mixture"""
    r = rng.random()
    if r < 0.05:
        return periodic(cfg, rng)
    if r < 0.30:
        return extreme_digits(cfg, rng)
    if r < 0.50:
        return boundary(cfg, rng)
    if r < 0.62:
        return sparse(cfg, rng)
    if r < 0.80:
        return short(cfg, rng)
    return uniform(cfg, rng)


def related(cfg, rng, a):
    """family 5: second operand derived from the first"""
    r = rng.randrange(12)
    if r == 0:
        v = a
    elif r == 1:
        v = a + rng.choice((-1, 1))
    elif r == 2:
        v = ~a
    elif r == 3:
        v = -a
    elif r == 4:
        v = cfg.max - a
    elif r == 5:
        v = cfg.min - a
    elif r == 6:
        v = a ^ (1 << (cfg.bits - 1))
    elif r == 7:
        # same high digits, differ only in the lowest digit
        v = (cfg.pat(a) & ~(cfg.B - 1)) | rng.getrandbits(cfg.dbits)
    elif r == 8:
        k = rng.randrange(cfg.bits)
        v = cfg.pat(a) >> k
    elif r == 9:
        k = rng.randrange(cfg.bits)
        v = cfg.pat(a) << k
    elif r == 10:
        v = a ^ (1 << pick_bitpos(cfg, rng))
    else:
        v = -a + rng.choice((-1, 1))
    return cfg.wrap(v)


def pair(cfg, rng):
    a = value(cfg, rng)
    if rng.random() < 0.4:
        return a, related(cfg, rng, a)
    return a, value(cfg, rng)


def amount(cfg, rng):
    """family 8: shift / rotate / exponent amounts as u32"""
    return max(0, min((1 << 32) - 1, _amount(cfg, rng)))


def _amount(cfg, rng):
    b = cfg.bits
    d = cfg.dbits
    r = rng.random()
    if r < 0.35:
        return rng.choice((0, 1, d - 1, d, d + 1, b - 1, b, b + 1, 2 * b - 1, 2 * b, 2 * b + 1, 1 << 31, (1 << 32) - 1,
                           (1 << 32) - b, b - d, b - d - 1, b - d + 1, 3 * b, (1 << 32) - 2))
    if r < 0.55:
        return max(0, min((1 << 32) - 1, d * rng.randrange(cfg.n + 2) + rng.choice((-1, 0, 1))))
    if r < 0.85:
        return rng.randrange(b)
    if r < 0.93:
        return rng.randrange(b, 4 * b + 2)
    return rng.getrandbits(32)


def small_amount(cfg, rng):
    """amount strictly below BITS"""
    b = cfg.bits
    d = cfg.dbits
    r = rng.random()
    if r < 0.3:
        return rng.choice((0, 1, d - 1, d % b, (d + 1) % b, b - 1, b - 2, (b - d) % b, max(0, b - d - 1), (b - d + 1) % b))
    if r < 0.5:
        return max(0, min(b - 1, d * rng.randrange(cfg.n + 1) + rng.choice((-1, 0, 1))))
    return rng.randrange(b)


# prime factorisations of B + k for the four digit bases B = 2^D and k in -2..=2 (computed once with sympy): a bound on a product of two
# leading digits, written with <= where < was meant (or the other way round), only shows when that product *equals* such a number
_NEAR_BASE = {
    8: {-2: {2: 1, 127: 1}, -1: {3: 1, 5: 1, 17: 1}, 0: {2: 8}, 1: {257: 1}, 2: {2: 1, 3: 1, 43: 1}},
    16: {-2: {2: 1, 7: 1, 31: 1, 151: 1}, -1: {3: 1, 5: 1, 17: 1, 257: 1}, 0: {2: 16}, 1: {65537: 1}, 2: {2: 1, 3: 2, 11: 1, 331: 1}},
    32: {-2: {2: 1, 2147483647: 1}, -1: {3: 1, 5: 1, 17: 1, 257: 1, 65537: 1}, 0: {2: 32}, 1: {641: 1, 6700417: 1}, 2: {2: 1, 3: 1, 715827883: 1}},
    64: {-2: {2: 1, 7: 2, 73: 1, 127: 1, 337: 1, 92737: 1, 649657: 1}, -1: {3: 1, 5: 1, 17: 1, 257: 1, 641: 1, 65537: 1, 6700417: 1}, 0: {2: 64},
         1: {274177: 1, 67280421310721: 1}, 2: {2: 1, 3: 3, 19: 1, 43: 1, 5419: 1, 77158673929: 1}},
}
_nbp = {}


def near_base_pairs(D):
    """all (x, y, k) with x * y == 2^D + k, 2 <= x, y <= 2^D, k in -2..=2"""
    if D not in _nbp:
        out = []
        B = 1 << D
        for k, f in _NEAR_BASE[D].items():
            divs = [1]
            for p, e in f.items():
                divs = [d * p ** i for d in divs for i in range(e + 1)]
            for x in divs:
                y = (B + k) // x
                if 2 <= x <= B and 2 <= y <= B:
                    out.append((x, y, k))
        _nbp[D] = out
    return _nbp[D]


def leading_product_pair(cfg, rng):
    """two magnitudes whose leading digits ta, tb make ta*tb, (ta+1)*tb, ta*(tb+1) or (ta+1)*(tb+1) equal to B-2 .. B+2, placed so that their
    lengths add up to N or N+1 digits; the lower digits are all ones, zero or random"""
    D, N, B = cfg.dbits, cfg.n, cfg.B
    k = rng.choice((-2, -1, 0, 1, 1, 2))   # k first: the two numbers with few factorisations (B + 1 is 641 * 6700417 at 32 bits) must not drown
    x, y, k = rng.choice([t for t in near_base_pairs(D) if t[2] == k] or near_base_pairs(D))
    ta = min(B - 1, max(1, x - rng.choice((0, 1))))
    tb = min(B - 1, max(1, y - rng.choice((0, 1))))
    tot = rng.choice((N - 1, N - 1, N - 2, N)) if N > 1 else 0
    i = rng.randrange(0, max(1, min(N, tot + 1)))
    j = min(N - 1, max(0, tot - i))

    def low(nd):
        if nd == 0:
            return 0
        c = rng.random()
        if c < 0.5:
            return (1 << (D * nd)) - 1
        if c < 0.7:
            return 0
        return rng.getrandbits(D * nd)
    return (ta << (D * i)) | low(i), (tb << (D * j)) | low(j)


def cross_term_pair(cfg, rng):
    """two-limb operands (a1:a0), (b1:b0) with limbs of L bits whose cross term a0*b1 + a1*b0 is exactly 2^(2L) (closed form a0 = b1 = 2^L - 2e,
    a1 = 4e, b0 = 2^L - e), or one unit off in one limb: the sum of the two cross products then carries out with an all-zero low part - the case a
    schoolbook / Karatsuba product assembled from half-width pieces gets wrong if the carry of the cross-term addition is tested with the wrong
    comparison. L is the digit size or a machine word size (16/32/64) that the width can hold twice; the pair may be moved up by whole limbs."""
    Ls = [L for L in {cfg.dbits, 16, 32, 64} if 2 * L <= cfg.bits]
    if not Ls:
        return value(cfg.U(), rng), value(cfg.U(), rng)
    L = rng.choice(sorted(Ls))
    W = 1 << L
    e = rng.choice((1, 2, 3, rng.randrange(1, 1 << max(1, L - 2)), rng.randrange(1, 1 << max(1, L // 2))))
    e = max(1, min(e, (W >> 2) - 1))
    a0 = b1 = W - 2 * e
    a1, b0 = 4 * e, W - e
    if rng.random() < 0.25:
        which = rng.randrange(4)
        d = rng.choice((-1, 1))
        a0, a1, b0, b1 = [x + (d if i == which else 0) for i, x in enumerate((a0, a1, b0, b1))]
    a = ((a1 % W) << L) | (a0 % W)
    b = ((b1 % W) << L) | (b0 % W)
    if rng.random() < 0.5:
        a, b = b, a
    room = cfg.bits - 2 * L
    if room >= L and rng.random() < 0.3:
        a <<= L * rng.randrange(0, room // L + 1)
    return a & cfg.mask, b & cfg.mask
