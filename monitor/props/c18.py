"""C18 — num_traits / num_integer implementations honour the trait contracts."""
import math
import core
import gen
from core import PANIC, ANY, NOPANIC, NoCalib, Some, opt
from props.common import thorough_aux, default_encode, default_decode
from props import c01, c02, c03, c05, c06, c08, c10

PROP = 'C18'
BIN = 'c18'
DENSE = {'quick': {8: 24, 16: 24, 32: 24, 64: 24}, 'thorough': {8: 96, 16: 96, 32: 96, 64: 96}}   # bounded by the build time of this driver
SIG = {'int': 'xxx', 'root': 'xd', 'prim': 'xd', 'num': 'sd'}
encode = default_encode(SIG)
decode = default_decode(SIG)
TASK_REQS = 1500
TIMEOUT = 2700   # watchdog per task; the 8192-bit u8-digit type in the debug build is the slowest configuration
EXH_SCALE = 0.25   # binary gcd is slow: narrower quick-tier slices in the in-process sweeps
RULE = ('Integer (div_floor, mod_floor, div_rem, div_mod_floor, div_ceil, next/prev_multiple_of, gcd, lcm, gcd_lcm, is_multiple_of, is_even/odd), Roots (sqrt, cbrt, nth_root '
        'with degrees 1..8, 40, 63..65, BITS-1..BITS+1, u32::MAX and random), Euclid, CheckedEuclid, Signed, PrimInt, Bounded, '
        'Zero/One, Num, Pow, MulAdd(Assign) and the Checked/Wrapping/Saturating/Overflowing forwarders, all called through the '
        'traits; the same calls on the Rust primitives (num_traits/num_integer own impls) calibrate the model. Operands: all sign '
        'combinations with zero and non-zero remainders, gcd of multiples / powers of two / zero / MIN, the cross product of the primitive-type bounds (+-2^k, +-(2^k+-1), k in 7..128), r^n and r^n+-1 for the roots, '
        'values above 2^128 (Newton path), degrees where s^(n-1) exceeds the width. Non-trivial: negative operand with non-zero '
        'remainder, root argument at or next to a perfect power, Newton path, degree > 3, lcm/gcd of non-coprime operands; '
        'distinct = distinct request lines')


def configs(tier):
    return core.cfg_names(full=(tier == 'thorough'))


def budget(cfg, tier):
    base = 2500 if tier == 'quick' else 25000
    if cfg.n >= 1024:
        return 16 if tier == 'quick' else 80
    if cfg.n >= 128:
        return base // 25
    return base


def iroot(x, e):
    """floor(x ** (1/e)), x >= 0, e >= 1"""
    if x < 2 or e == 1:
        return x
    if e >= x.bit_length():
        return 1
    r = 1 << ((x.bit_length() + e - 1) // e)
    while True:
        nr = ((e - 1) * r + x // r ** (e - 1)) // e
        if nr >= r:
            break
        r = nr
    assert r ** e <= x < (r + 1) ** e
    return r


def root_degree(cfg, rng):
    b = cfg.bits
    return rng.choice((1, 2, 3, 4, 5, 7, 8, 40, 63, 64, 65, b - 1, b, b + 1, (1 << 32) - 1, 2, 3, 4, 6, rng.randrange(1, 20), rng.randrange(1, 2 * b), 0,
                       b // 2, b // 3, b // 2 + 1, 16, 31, 33))


def requests(cfg, rng, n, tier, part, nparts, st):
    n1 = max(1, n // 6)
    # ---- cross product of the primitive-type bounds (fast paths through u64 / u128 / i128 switch exactly there)
    if cfg.bits > 64 and (tier == 'thorough' or cfg.name in ('i64x3', 'u64x3', 'i8x17', 'u8x17', 'i32x6', 'u16x8', 'i64x5')):
        vals = [0, 1, -1]
        for k in (7, 8, 31, 32, 63, 64, 127, 128):
            for m in ((1 << k), (1 << k) - 1, (1 << k) + 1):
                vals += [m, -m]
        vals = sorted(set(cfg.wrap(v) for v in vals))
        allp = [(a, b) for a in vals for b in vals]
        if cfg.n >= 128:
            # 2600 pairs x ~55 trait calls at up to 8192 bits is minutes of debug-build time per configuration: a seed-dependent tenth of the pairs
            allp = allp[rng.randrange(10)::10]
        lo_, hi_ = (len(allp) * part // nparts, len(allp) * (part + 1) // nparts)
        for a, b in allp[lo_:hi_]:
            yield 'int', (a, b, 0)
    # ---- int group: operands from the division generator and gcd-specific families
    k = 0
    for g, a in c03.requests(cfg, rng, n1 * 2, tier, 0, 1, {'exhaustive': []}, exhaustive=False):
        if g == 'dd':
            continue
        yield 'int', (a[0], a[1], gen.value(cfg, rng) if rng.random() < 0.5 else cfg.wrap(rng.choice((0, 1, -1, cfg.max, cfg.min))))
        k += 1
        if k >= n1 * 2:
            break
    for _ in range(n1):
        r = rng.random()
        gcfg = cfg
        if r < 0.4:
            g = abs(gen.short(cfg, rng)) or 1
            lim = max(1, cfg.max // g)
            x = rng.randrange(0, min(lim, 1 << 64) + 1)
            y = rng.randrange(0, min(lim, 1 << 64) + 1)
            a, b = g * x, g * y
        elif r < 0.6:
            a = 1 << rng.randrange(cfg.bits - 1)
            b = (1 << rng.randrange(cfg.bits - 1)) * rng.choice((1, 3, 5))
        elif r < 0.75:
            a = rng.choice((0, cfg.min, cfg.max, 1, -1, gen.boundary(cfg, rng), gen.boundary(cfg, rng)))
            b = rng.choice((0, cfg.min, cfg.max, gen.value(cfg, rng), 2, -2, a, 0, gen.boundary(cfg, rng)))
        else:
            a, b = gen.short(cfg, rng), gen.short(cfg, rng)
        if cfg.signed:
            if rng.random() < 0.5:
                a = -a
            if rng.random() < 0.5:
                b = -b
        # MulAdd operands: small enough that a*b+c is sometimes representable
        yield 'int', (cfg.wrap(a), cfg.wrap(b), cfg.wrap(rng.choice((0, 1, -1, gen.short(cfg, rng)))))
    # ---- roots
    for _ in range(n1 * 2):
        e = root_degree(cfg, rng)
        r = rng.random()
        if r < 0.45 and e >= 1:
            rmax = iroot(cfg.max, min(e, cfg.bits + 2))
            base = rng.choice((rmax, rmax, max(rmax - 1, 0), rng.randrange(0, rmax + 1), 2, 3, 10))
            base = min(base, rmax)
            x = base ** min(e, cfg.bits + 2) + rng.choice((-1, 0, 0, 1))
            x = max(0, min(x, cfg.max))
        elif r < 0.6:
            x = rng.choice((cfg.max, cfg.max - 1, 0, 1, 2, 3, 4, 7, 8, 9, 26, 27, 28, (1 << 128) - 1, 1 << 128, (1 << 128) + 1))
            x = min(x, cfg.max)
        elif r < 0.8:
            x = abs(gen.value(cfg, rng))
            x = min(x, cfg.max)
        else:
            x = rng.getrandbits(rng.randrange(1, cfg.bits + (0 if cfg.signed else 1)))
            x = min(x, cfg.max)
        if cfg.signed and rng.random() < 0.3:
            x = -x if rng.random() < 0.9 else cfg.min
        yield 'root', (cfg.wrap(x), e)
    # ---- PrimInt
    for _ in range(n1):
        a = gen.value(cfg, rng)
        s = gen.small_amount(cfg, rng) if rng.random() < 0.8 else gen.amount(cfg, rng)
        yield 'prim', (a, s)
    for _ in range(max(1, n1 // 4)):
        yield 'num', c10.gen_string(cfg, rng)


def model(cfg, ctx, group, args):
    exp = {}
    cls = set()
    dbg = ctx['dbg']

    def arith(v):
        """operator semantics: unrepresentable => panic with debug assertions, wrapped value without"""
        return v if cfg.fits(v) else (PANIC if dbg else cfg.wrap(v))

    if group == 'int':
        a, b, c = args
        e1 = c01.model(cfg, ctx, 'as', (a, b, 0))[0]
        e2 = c02.model(cfg, ctx, 'mul', (a, b, 0))[0]
        e3 = c03.model(cfg, ctx, 'dr', (a, b))[0]
        exp['CheckedAdd'] = e1['checked_add']
        exp['CheckedSub'] = e1['checked_sub']
        exp['CheckedNeg'] = e1['checked_neg']
        exp['CheckedMul'] = e2['checked_mul']
        exp['CheckedDiv'] = e3['checked_div']
        exp['CheckedRem'] = e3['checked_rem']
        exp['WrappingAdd'] = e1['wrapping_add']
        exp['WrappingSub'] = e1['wrapping_sub']
        exp['WrappingNeg'] = e1['wrapping_neg']
        exp['WrappingMul'] = e2['wrapping_mul']
        exp['SaturatingAdd'] = exp['Saturating::saturating_add'] = e1['saturating_add']
        exp['SaturatingSub'] = exp['Saturating::saturating_sub'] = e1['saturating_sub']
        exp['SaturatingMul'] = e2['saturating_mul']
        exp['OverflowingAdd'] = e1['overflowing_add']
        exp['OverflowingSub'] = e1['overflowing_sub']
        exp['Euclid::div_euclid'] = e3['div_euclid']
        exp['Euclid::rem_euclid'] = e3['rem_euclid']
        exp['CheckedEuclid::checked_div_euclid'] = e3['checked_div_euclid']
        exp['CheckedEuclid::checked_rem_euclid'] = e3['checked_rem_euclid']
        de, re_ = e3['div_euclid'], e3['rem_euclid']
        exp['Euclid::div_rem_euclid'] = PANIC if (de == PANIC or re_ == PANIC) else ((de, re_) if not (de is ANY or re_ is ANY) else ANY)
        cde, cre = e3['checked_div_euclid'], e3['checked_rem_euclid']
        exp['CheckedEuclid::checked_div_rem_euclid'] = None if (cde is None or cre is None) else (Some((cde[1], cre[1])) if (isinstance(cde, tuple) and isinstance(cre, tuple)) else ANY)
        exp['Zero::set_zero'] = 0
        exp['One::set_one'] = 1
        exp['Integer::inc'] = arith(a + 1)
        exp['Integer::dec'] = arith(a - 1)
        exp['Bounded::min_value'] = cfg.min
        exp['Bounded::max_value'] = cfg.max
        exp['Zero::zero'] = 0
        exp['One::one'] = 1
        exp['Zero::is_zero'] = a == 0
        exp['One::is_one'] = a == 1
        exp['Integer::is_even'] = a % 2 == 0
        exp['Integer::is_odd'] = a % 2 == 1
        p = a * b
        if cfg.fits(p):
            exp['MulAdd'] = exp['MulAddAssign'] = arith(p + c)
        else:
            exp['MulAdd'] = exp['MulAddAssign'] = PANIC if dbg else cfg.wrap(p + c)
            cls.add('MulAdd: product overflows')
        if b == 0:
            # the trait contracts (and the property) say nothing about a zero divisor; the primitives panic, bnum does too today
            for k in ('Integer::div_floor', 'Integer::mod_floor', 'Integer::div_rem', 'Integer::div_mod_floor', 'Integer::is_multiple_of', 'Integer::divides'):
                exp[k] = ANY
            # num_integer documents is_multiple_of(0) as "self == 0" for primitives since 0.1.46; the property does not mention it
            exp['Integer::is_multiple_of'] = ANY
            exp['Integer::divides'] = ANY
            cls.add('zero divisor')
        elif cfg.signed and a == cfg.min and b == -1:
            for k in ('Integer::div_floor', 'Integer::mod_floor', 'Integer::div_rem', 'Integer::div_mod_floor', 'Integer::is_multiple_of', 'Integer::divides'):
                exp[k] = ANY
            cls.add('MIN / -1')
        else:
            fl = a // b
            md = a - fl * b
            assert md == 0 or (md < 0) == (b < 0)
            q = abs(a) // abs(b) * (1 if (a < 0) == (b < 0) else -1)
            r = a - q * b
            exp['Integer::div_floor'] = fl
            exp['Integer::mod_floor'] = md
            exp['Integer::div_rem'] = (q, r)
            exp['Integer::div_mod_floor'] = (fl, md)
            exp['Integer::is_multiple_of'] = md == 0
            exp['Integer::divides'] = md == 0
            if r != 0 and (a < 0) != (b < 0):
                cls.add('floor differs from truncation (signs differ, remainder non-zero)')
            elif r != 0 and a < 0:
                cls.add('both negative, remainder non-zero')
        # provided methods of Integer (documented in terms of the required ones): ceiling division, rounding to multiples
        if b == 0 or (cfg.signed and a == cfg.min and b == -1):
            for k in ('Integer::div_ceil', 'Integer::next_multiple_of', 'Integer::prev_multiple_of'):
                exp[k] = ANY
        else:
            ce = -((-a) // b)
            exp['Integer::div_ceil'] = ce if cfg.fits(ce) else ANY
            nm = a if md == 0 else a - md + b      # "rounds up to the nearest multiple" (towards the sign of the argument for signed types)
            pm = a - md
            exp['Integer::next_multiple_of'] = nm if cfg.fits(nm) else ANY
            exp['Integer::prev_multiple_of'] = pm if cfg.fits(pm) else ANY
        g = math.gcd(a, b)
        exp['Integer::gcd'] = g if cfg.fits(g) else ANY
        if not cfg.fits(g):
            cls.add('gcd not representable')
        if a == 0 or b == 0:
            # num_integer's primitive impl computes gcd first and panics on gcd(MIN, 0) in debug builds although lcm = 0 is representable
            exp['Integer::lcm'] = 0 if cfg.fits(g) else NoCalib(0)
            cls.add('gcd/lcm with zero')
        else:
            l = abs(a) // g * abs(b)
            exp['Integer::lcm'] = l if (cfg.fits(l) and cfg.fits(g)) else ANY
            if not cfg.fits(l):
                cls.add('lcm not representable')
            elif g > 1:
                cls.add('gcd > 1, lcm representable')
        # gcd_lcm: the pair (gcd, lcm); judged where both are representable (gcd(MIN, 0)-style inputs are left open like lcm above)
        eg, el = exp['Integer::gcd'], exp['Integer::lcm']
        if eg is ANY or el is ANY or isinstance(el, NoCalib):
            exp['Integer::gcd_lcm'] = ANY
        else:
            exp['Integer::gcd_lcm'] = (eg, el)
        if cfg.signed:
            exp['Signed::abs'] = arith(abs(a))
            exp['Signed::abs_sub'] = 0 if a <= b else arith(a - b)
            exp['Signed::signum'] = (a > 0) - (a < 0)
            exp['Signed::is_positive'] = a > 0
            exp['Signed::is_negative'] = a < 0
            if a == cfg.min:
                cls.add('Signed::abs of MIN')
    elif group == 'root':
        x, n = args
        d = '@d%d' % cfg.dbits
        if x < 0:
            exp['Roots::sqrt'] = ANY      # no real root: outside the property (bnum and the primitives panic)
            exp['Roots::cbrt'] = -iroot(-x, 3)
            cls.add('root of a negative value')
        else:
            exp['Roots::sqrt'] = iroot(x, 2)
            exp['Roots::cbrt'] = iroot(x, 3)
        if n == 0:
            exp['Roots::nth_root'] = ANY  # the property quantifies over n >= 1
            cls.add('plain:zeroth root (not judged)')
        elif x < 0 and n % 2 == 0 and n != 1:
            exp['Roots::nth_root'] = ANY  # no real root
            cls.add('plain:even root of a negative value (not judged)')
        else:
            r = iroot(abs(x), n)
            exp['Roots::nth_root'] = -r if x < 0 else r
            if cfg.signed and x == cfg.min and n == 1:
                # num_integer's primitive impl negates the unsigned root and overflows for MIN.nth_root(1) in debug builds
                exp['Roots::nth_root'] = NoCalib(x)
            if abs(x) >= 1 << 128:
                cls.add('Newton path (argument >= 2^128)' + d)
                if n >= 4:
                    cls.add('Newton path, degree >= 4' + d)
                if n >= 4 and r >= 2 and (r + 1) ** (n - 1) > cfg.U().max:
                    cls.add('Newton path where (r+1)^(n-1) exceeds the type' + d)
            if n >= 2 and r >= 2:
                if r ** n == abs(x):
                    cls.add('argument is a perfect power')
                elif (r + 1) ** n == abs(x) + 1:
                    cls.add('argument is one below a perfect power')
            if n > abs(x).bit_length() and abs(x) > 1:
                cls.add('degree exceeds the bit length (root is 1)')
    elif group == 'prim':
        a, s = args
        e5 = c05.model(cfg, ctx, 'sh', (a, s))[0]
        e6 = c06.model(cfg, ctx, 'bits', (a, 0, 0, 0))[0]
        for k in ('count_ones', 'count_zeros', 'leading_zeros', 'trailing_zeros', 'leading_ones', 'trailing_ones', 'swap_bytes', 'reverse_bits'):
            exp['PrimInt::' + k] = e6[k]
        exp['PrimInt::rotate_left'] = e5['rotate_left']
        exp['PrimInt::rotate_right'] = e5['rotate_right']
        exp['PrimInt::signed_shl'] = exp['PrimInt::unsigned_shl'] = e5['shl']
        U, S = cfg.U(), cfg.S()
        p = cfg.pat(a)
        if s < cfg.bits:
            exp['PrimInt::signed_shr'] = cfg.val(cfg.pat(S.val(p) >> s))
            exp['PrimInt::unsigned_shr'] = cfg.val(p >> s)
        else:
            exp['PrimInt::signed_shr'] = exp['PrimInt::unsigned_shr'] = PANIC if dbg else (NOPANIC if not cfg.pow2 else ANY)
            if cfg.pow2 and not dbg:
                k = s % cfg.bits
                exp['PrimInt::signed_shr'] = cfg.val(cfg.pat(S.val(p) >> k))
                exp['PrimInt::unsigned_shr'] = cfg.val(p >> k)
            cls.add('PrimInt shift amount >= BITS')
        little = ctx.get('endian', 'little') == 'little'
        exp['PrimInt::to_be'] = exp['PrimInt::from_be'] = e6['swap_bytes'] if little else a
        exp['PrimInt::to_le'] = exp['PrimInt::from_le'] = a if little else e6['swap_bytes']
        e8 = c08.model(cfg, ctx, 'pow', (a, s))[0]
        exp['PrimInt::pow'] = exp['Pow::pow'] = e8['pow']
        exp['CheckedShl'] = e5['checked_shl']
        exp['CheckedShr'] = e5['checked_shr']
        exp['WrappingShl'] = e5['wrapping_shl']
        exp['WrappingShr'] = e5['wrapping_shr']
        if a < 0 and 0 < s < cfg.bits:
            cls.add('negative value: signed_shr vs unsigned_shr differ')
        elif not cfg.signed and p >> (cfg.bits - 1) and 0 < s < cfg.bits:
            cls.add('unsigned value with top bit set: signed_shr sign-fills')
        else:
            cls.add('plain:PrimInt')
    else:
        s, r = args
        e = c10.model(cfg, ctx, 'ps', (s, r))[0]
        try:
            s.decode('utf8')
            frs = e['from_str_radix']
            exp['Num::from_str_radix'] = frs[1] if isinstance(frs, tuple) and frs[0] == 'S' else frs
        except UnicodeDecodeError:
            exp['Num::from_str_radix'] = ANY
        cls.add('Num::from_str_radix')
    if not cls:
        cls.add('plain')
    return exp, cls


REQUIRED = ['floor differs from truncation (signs differ, remainder non-zero)', 'both negative, remainder non-zero', 'zero divisor',
            'gcd/lcm with zero', 'gcd > 1, lcm representable', 'lcm not representable', 'Signed::abs of MIN', 'MulAdd: product overflows',
            'root of a negative value', 'argument is a perfect power',
            'argument is one below a perfect power', 'degree exceeds the bit length (root is 1)', 'negative value: signed_shr vs unsigned_shr differ',
            'unsigned value with top bit set: signed_shr sign-fills', 'Num::from_str_radix'] + \
    ['%s@d%d' % (c, d) for d in (8, 16, 32, 64) for c in ('Newton path (argument >= 2^128)', 'Newton path, degree >= 4',
                                                        'Newton path where (r+1)^(n-1) exceeds the type')]


def floors(st, tier):
    # the quick table has no 16-bit-digit configuration wider than 128 bits
    req = [c for c in REQUIRED if tier == 'thorough' or not (c.endswith('@d16') and 'Newton' in c)]
    return ['class %r never observed' % c for c in req if st['classes'].get(c, 0) == 0]


extra_passes = thorough_aux('props.c18', ('miri',), nreq=30, exh=True)
