//! C08 driver: powers and integer logarithms. group "pow": args a:T e:u32 ; group "log": args a:T b:T
use bnum_verif_harness::*;

macro_rules! body {
    ($kind:tt, $T:ty, $U:ty, $S:ty $(, $rest:tt)*) => {
        group_fn! { pows; args; { let a: $T = args.v(0); let e = args.u32(1); };
            "overflowing_pow" => a.overflowing_pow(e),
            "checked_pow" => a.checked_pow(e),
            "wrapping_pow" => a.wrapping_pow(e),
            "saturating_pow" => a.saturating_pow(e),
            "strict_pow" => a.strict_pow(e),
            "pow" => a.pow(e),
        }
        group_fn! { logs; args; { let a: $T = args.v(0); let b: $T = args.v(1); };
            "ilog" => a.ilog(b),
            "ilog2" => a.ilog2(),
            "ilog10" => a.ilog10(),
            "checked_ilog" => a.checked_ilog(b),
            "checked_ilog2" => a.checked_ilog2(),
            "checked_ilog10" => a.checked_ilog10(),
        }
        pub fn run(g: &str, args: &Args, out: &mut String) -> bool {
            match g { "pow" => { pows(args, out); true } "log" => { logs(args, out); true } _ => false }
        }
    };
}

for_cfgs!(gen_mods; run_bnum, bnum, body, body);
for_prims!(gen_mods; run_prim, prim, body, body);

fn run(cfg: &str, g: &str, args: &Args, out: &mut String) -> bool {
    run_bnum(cfg, g, args, out) || run_prim(cfg, g, args, out)
}

fn main() {
    main_loop("C08", run);
}
