"""C11 — radix output is the canonical numeral and round-trips with parsing."""
import core
import gen
from core import PANIC, Some, Ok
from props.common import thorough_aux, default_encode, default_decode
from props.c10 import to_digits, DIGITS

PROP = 'C11'
BIN = 'c11'
# dense digit-count pass (run.dense_table): width-dependent estimates (digit counts, exponents) make every width interesting here
DENSE = {'quick': {64: 128}, 'thorough': {8: 1024, 16: 512, 32: 256}}
DENSE_REQS = {'quick': 60, 'thorough': 60}   # ~7400 types in the thorough tier: the width-sensitive family plus a sample of 120 requests each
DENSE_MODES = ('dev',)
SIG = {'out': 'xd'}
encode = default_encode(SIG)
decode = default_decode(SIG)
TASK_REQS = 2500
RULE = ('requests (value, radix): radices 2..=256 and out-of-range ones; structured values plus, for each radix, values with an interior '
        'all-zero chunk (x = hi*(r^p)^2 + lo, p = digits per division chunk of that digit size), interior zero digits, one-digit '
        'values, r^k and r^k-1, values with a few non-zero digits in the radix, chunk-base digits in the value or in its running quotient, exact multiples of the division chunk bases with a low digit next to 2^D, and 2^k-1 / 2^k for every bit length k (a seed-dependent stride when the budget of the configuration is smaller than its bit width). The numeral is computed independently by the monitor; the std formatter is a second oracle for widths '
        '<= 128 bits (radix 2/8/10/16). Non-trivial: interior run of >= 2 zero digits, multi-chunk numerals, power-of-two radices '
        'that do not divide the digit width, negative values; distinct = distinct request lines')


def configs(tier):
    return core.cfg_names(full=(tier == 'thorough'))


def budget(cfg, tier):
    base = 4000 if tier == 'quick' else 40000
    if cfg.n >= 1024:
        return 40 if tier == 'quick' else 200
    if cfg.n >= 128:
        return base // 20
    return base


def chunk_power(cfg, r):
    half = (cfg.B - 1) >> (cfg.dbits // 2)
    p = 1
    while r ** (p + 1) <= half:
        p += 1
    return p


def chunk_digit_value(cfg, rng, r):
    """some bnum digits equal to a division chunk base of radix r - the largest power of r in half a digit or in a whole digit - or a neighbour, others zero,
    all ones or random; half of the time that pattern is the *quotient*: the value is pattern * base^j + remainder, so that the digits appear in the running
    quotient after j short divisions rather than in the value itself. Unsigned pattern."""
    D, B, N = cfg.dbits, cfg.B, cfg.n
    p = chunk_power(cfg, r) if r & (r - 1) else 1
    pf = max(1, len(to_digits(B - 1, r)) - 1) if r & (r - 1) else 1
    j = rng.choice((0, 0, 1, 1, 2)) if N >= 3 else 0
    nd = max(1, N - j)
    v = 0
    for i in range(nd):
        c = rng.random()
        if c < 0.35:
            d = (r ** rng.choice((p, p, pf, pf, max(1, p - 1), 1))) + rng.choice((-1, 0, 0, 0, 1))
        elif c < 0.5:
            d = 0
        elif c < 0.65:
            d = B - 1 - rng.choice((0, 0, 0, 1))
        else:
            d = rng.getrandbits(D)
        v |= (d % B) << (D * i)
    if j:
        base = r ** rng.choice((p, pf))
        for _ in range(j):
            v = v * base + rng.choice((0, 1, base - 1, rng.randrange(base)))
    return v % cfg.mod


def sparse_in_radix(cfg, rng, r):
    """a value with only a few non-zero digits in radix r: sum of c_i * r^e_i for 2..4 random exponents - interior runs of zero digits of every length and
    alignment in that radix (the analogue of one or two set bits), e.g. 10^38 + 1"""
    cap = len(to_digits(cfg.mask, r))
    v = 0
    for _ in range(rng.choice((2, 2, 3, 4))):
        e = rng.choice((0, rng.randrange(cap), rng.randrange(cap), cap - 1, max(0, cap - 2)))
        c = rng.choice((1, 1, r - 1, rng.randrange(1, r), rng.randrange(1, r ** min(4, cap))))
        v += c * r ** e
    return v % cfg.mod


def chunk_multiple(cfg, rng, r):
    """an exact multiple of a division chunk base of radix r (half-digit or whole-digit power) whose low digit is 2^D - t for a small t,
    optionally followed by random lower digits; as an unsigned pattern"""
    D, B = cfg.dbits, cfg.B
    p = chunk_power(cfg, r) if rng.random() < 0.5 else max(1, len(to_digits(B - 1, r)) - 1)
    base = r ** p
    j = (base & -base).bit_length() - 1
    t = (1 << j) * rng.choice((1, 1, 1, 2, 3, rng.randrange(1, 16)))
    Bq, bq = B >> j, base >> j
    m = ((-(t >> j)) * pow(bq, -1, Bq)) % Bq if Bq > 1 else 0
    m += Bq * rng.randrange(0, max(1, min(base, B)))
    v = m * base
    k = rng.randrange(0, max(1, cfg.n - 1))
    v = (v << (D * k)) | (rng.getrandbits(D * k) if k else 0)
    return v % cfg.mod


def requests(cfg, rng, n, tier, part, nparts, st):
    if part == 0:
        for r in range(2, 257):
            yield 'out', (cfg.max, r)
            yield 'out', (cfg.min if cfg.signed else cfg.max // 3, r)
        for r in (0, 1, 257, 37, 2 ** 32 - 1):
            yield 'out', (gen.value(cfg, rng), r)
    # every bit length: 2^k - 1 and 2^k (+ a random value of that length); all k in the thorough tier, a seed-dependent 1/8 (wide types) in the quick tier
    # bounded by the budget of the configuration: every bit length when affordable, otherwise a seed-dependent stride
    stride = max(1, -(-(cfg.bits + 1) // max(256, 2 * n * nparts)))
    ks = list(range(rng.randrange(stride), cfg.bits + 1, stride))
    lo, hi = (len(ks) * part // nparts, len(ks) * (part + 1) // nparts)
    for k in ks[lo:hi]:
        r = rng.choice((10, 10, 10, 16, 7, 36, 3, 255))
        for v in ((1 << k) - 1, 1 << k, (1 << k) | rng.getrandbits(k) if k else 1):
            if v <= cfg.mask:
                yield 'out', (cfg.val(v), r)
    U = cfg.U()
    for _ in range(n):
        r = rng.choice((2, 3, 4, 5, 7, 8, 10, 10, 10, 16, 16, 32, 36, 36, 64, 128, 256, 100, 255, 37, 200, rng.randrange(2, 37), rng.randrange(2, 257)))
        rr = rng.random()
        if rr < 0.35:
            p = chunk_power(cfg, r) if r & (r - 1) else rng.randrange(1, 12)
            base = r ** p
            lo = rng.choice((0, 1, base - 1, rng.randrange(base)))
            hi = rng.choice((1, base - 1, rng.randrange(1, base), gen.short(U, rng) or 1))
            k = rng.choice((2, 2, 3, 4))
            v = hi * base ** k + lo
            if rng.random() < 0.3:
                v = v * base ** rng.randrange(0, 3) + rng.randrange(base)
            v %= cfg.mod
        elif rr < 0.40:
            v = chunk_digit_value(cfg, rng, r)
        elif rr < 0.44:
            v = sparse_in_radix(cfg, rng, r)
        elif rr < 0.5 and rng.random() < 0.5 and cfg.n >= 2:
            # exact multiples of a division chunk base (the largest power of the radix in half a digit, or in a whole digit) whose low digit is
            # within a few units of 2^D: the short division by that base then meets a two-digit window that is an exact multiple of the divisor
            # with an all-but-full low word - the case in which a division by reciprocal, or a quotient estimate, has no slack
            v = chunk_multiple(cfg, rng, r)
        elif rr < 0.5:
            cap = len(to_digits(cfg.mask, r))
            v = (r ** rng.randrange(0, cap + 1) + rng.choice((-1, 0, 0, 1))) % cfg.mod
        elif rr < 0.55:
            v = rng.randrange(0, min(r, cfg.mod))
        else:
            v = cfg.pat(gen.value(cfg, rng))
        a = cfg.val(v)
        if cfg.signed and rng.random() < 0.3 and a > 0:
            a = -a
        yield 'out', (a, r)


def model(cfg, ctx, group, args):
    a, r = args
    exp = {}
    cls = set()
    p = cfg.pat(a)
    if 2 <= r <= 36:
        ds = to_digits(abs(a), r)
        s = (b'-' if a < 0 else b'') + bytes(DIGITS[d] for d in ds)
        exp['to_str_radix'] = s
        exp['str_roundtrip'] = Ok(a)
        exp['calib_std_numeral'] = Some(s) if (cfg.bits <= 128 and r in (2, 8, 10, 16)) else None
    else:
        exp['to_str_radix'] = PANIC
        exp['str_roundtrip'] = PANIC
        exp['calib_std_numeral'] = None
        cls.add('string radix out of range')
    if 2 <= r <= 256:
        dp = to_digits(p, r)
        exp['to_radix_be'] = bytes(dp)
        exp['to_radix_le'] = bytes(dp[::-1])
        exp['be_roundtrip'] = Some(a)
        exp['le_roundtrip'] = Some(a)
        D = cfg.dbits
        if r == 256:
            path = 'byte copy path'
        elif r & (r - 1) == 0:
            path = 'exact bit slicing' if D % (r.bit_length() - 1) == 0 else 'inexact bit slicing'
        else:
            path = 'division path'
        d = '@d%d' % D
        if len(dp) > 1:
            cls.add(path + d)
            z = 0
            best = 0
            for x in dp[1:]:
                z = z + 1 if x == 0 else 0
                best = max(best, z)
            if best >= 2 and dp[-1] != 0 or best >= 2 and any(dp[1:]):
                cls.add('interior run of >= 2 zero digits, ' + path + d)
            if path == 'division path' and len(dp) > 2 * chunk_power(cfg, r):
                cls.add('>= 3 division chunks' + d)
        else:
            cls.add('plain:single digit')
        if a < 0:
            cls.add('negative value')
    else:
        exp['to_radix_be'] = PANIC
        exp['to_radix_le'] = PANIC
        exp['be_roundtrip'] = PANIC
        exp['le_roundtrip'] = PANIC
        cls.add('slice radix out of range')
    return exp, cls


REQUIRED = ['string radix out of range', 'slice radix out of range', 'negative value'] + \
    ['%s@d%d' % (c, d) for d in (8, 16, 32, 64) for c in ('exact bit slicing', 'inexact bit slicing', 'division path', '>= 3 division chunks',
                                                        'interior run of >= 2 zero digits, division path',
                                                        'interior run of >= 2 zero digits, inexact bit slicing',
                                                        'interior run of >= 2 zero digits, exact bit slicing')] + ['byte copy path@d8']


def floors(st, tier):
    return ['class %r never observed' % c for c in REQUIRED if st['classes'].get(c, 0) == 0]


extra_passes = thorough_aux('props.c11', ('miri',))


def dense_requests(cfg, rng, n, st):
    """dense digit-count pass: values with the maximal number of digits (and one fewer) in every string radix and a few slice radices — what a
    width-dependent buffer size or digit-count estimate has to cope with at this particular width"""
    # every radix on types up to 1024 bits, a handful beyond (the debug build needs ~10 ms per conversion at 8192 bits)
    for r in (list(range(2, 37)) + [37, 100, 128, 200, 255, 256]) if cfg.bits <= 1024 else (2, 3, 7, 10, 16, 36, 255, 256):
        cap = len(to_digits(cfg.mask, r))
        for v in (cfg.max, cfg.min if cfg.signed else cfg.max // 3, cfg.val((r ** (cap - 1)) & cfg.mask), cfg.val((r ** (cap - 1) - 1) & cfg.mask)):
            yield 'out', (v, r)
