#!/usr/bin/env python3
"""Development aid (not a registered check): evaluates a seeded change.

  tools/eval_mutant.py <dir with patch.diff, demo.rs, meta.json> [--checks C05,C16] [--tier quick] [--keep]

1. fresh scratch worktree of /repo HEAD under /tmp, patch applied;
2. the pinned test suite must still pass there;
3. the demonstration must fail with the patch and pass without it;
4. the named checks (default: the property's own quick check) are run against the patched worktree (VERIF_REPO), their verdicts recorded;
5. the worktree and its build output are removed.
Writes <dir>/eval.json."""
import json
import os
import re
import shutil
import subprocess
import sys
import time

ROOT = os.path.dirname(os.path.dirname(os.path.abspath(__file__)))


def sh(cmd, cwd=None, env=None, timeout=3600):
    p = subprocess.run(cmd, shell=True, cwd=cwd, env=env, stdout=subprocess.PIPE, stderr=subprocess.STDOUT, text=True, timeout=timeout)
    return p.returncode, p.stdout


def main():
    args = sys.argv[1:]
    d = os.path.abspath(args[0])
    checks = None
    tier = 'quick'
    keep = '--keep' in args
    for i, a in enumerate(args):
        if a == '--checks':
            checks = args[i + 1].split(',')
        if a == '--tier':
            tier = args[i + 1]
    meta = json.load(open(os.path.join(d, 'meta.json')))
    prop = meta['property']
    checks = checks or [prop]
    tag = re.sub(r'[^A-Za-z0-9]', '', d)[-24:]
    wt = '/tmp/ev-' + tag
    res = {'dir': d, 'property': prop, 'at': time.strftime('%Y-%m-%dT%H:%M:%S')}
    sh('git -C /repo worktree remove --force %s' % wt)
    rc, out = sh('git -C /repo worktree add -q --detach %s HEAD' % wt)
    if rc:
        print(out)
        return 2
    try:
        rc, out = sh('git apply %s' % os.path.join(d, 'patch.diff'), cwd=wt)
        res['patch_applies'] = rc == 0
        if rc:
            res['error'] = out[-2000:]
            return finish(d, res)
        env = dict(os.environ, CARGO_NET_OFFLINE='true')
        rc, out = sh('cargo nextest run --workspace --no-fail-fast --test-threads 8 --offline 2>&1 | tail -4', cwd=wt, env=env)
        m = re.search(r'(\d+) tests run: (\d+) passed', out)
        res['suite'] = out.strip().splitlines()[-1] if out.strip() else ''
        res['suite_passes_with_patch'] = bool(m and m.group(1) == m.group(2) and 'failed' not in out.split('Summary')[-1])
        rc, out = sh('cargo build --offline --features numtraits,rand 2>&1 | tail -2', cwd=wt, env=env)
        res['feature_build_ok'] = 'error' not in out
        # demonstration
        os.makedirs(os.path.join(wt, 'tests'), exist_ok=True)
        demo_cmd = meta.get('demo_cmd', '')
        k = re.search(r'demo_(\w+)', demo_cmd)
        demo_name = 'demo_' + (k.group(1) if k else '1')
        shutil.copy(os.path.join(d, 'demo.rs'), os.path.join(wt, 'tests', demo_name + '.rs'))
        cmd = re.sub(r'^cd \S+ && ', '', demo_cmd)
        if 'cargo' not in cmd:
            cmd = 'cargo test --offline --test %s' % demo_name
        if '--offline' not in cmd:
            cmd = cmd.replace('cargo test', 'cargo test --offline')
        rc1, out1 = sh(cmd + ' 2>&1 | tail -15', cwd=wt, env=env)
        res['demo_cmd'] = cmd
        res['demo_fails_with_patch'] = ('test result: FAILED' in out1) or ('panicked' in out1 and 'test result: ok' not in out1)
        sh('git apply -R %s' % os.path.join(d, 'patch.diff'), cwd=wt)
        rc2, out2 = sh(cmd + ' 2>&1 | tail -15', cwd=wt, env=env)
        res['demo_passes_without_patch'] = 'test result: ok' in out2 and 'FAILED' not in out2
        if not res['demo_passes_without_patch']:
            res['demo_out_without'] = out2[-1500:]
        if not res['demo_fails_with_patch']:
            res['demo_out_with'] = out1[-1500:]
        sh('git apply %s' % os.path.join(d, 'patch.diff'), cwd=wt)
        # our checks against the patched copy
        res['checks'] = {}
        for c in checks:
            t0 = time.time()
            env2 = dict(env, VERIF_REPO=wt)
            rc, out = sh('./check %s %s' % (c, tier), cwd=ROOT, env=env2, timeout=7200)
            viol = [l for l in out.splitlines() if l.startswith('VIOLATION')]
            detail = [l.strip()[:300] for l in out.splitlines() if l.startswith('    ') and 'request:' not in l][:6]
            summ = [l for l in out.splitlines() if 'violating events' in l or l.startswith('INCONCLUSIVE')][:3]
            res['checks'][c] = {'exit': rc, 'violation_lines': len(viol), 'first': detail, 'summary': [s[:600] for s in summ], 'wall_s': round(time.time() - t0)}
            print('%s %s -> exit %d, %d VIOLATION lines' % (c, tier, rc, len(viol)), flush=True)
    finally:
        if not keep:
            sh('git -C /repo worktree remove --force %s' % wt)
            sys.path.insert(0, os.path.join(ROOT, 'monitor'))
            import core
            h = core.h64(os.path.realpath(wt)).to_bytes(8, 'little').hex()[:8]
            import glob
            for g in glob.glob(os.path.join(ROOT, '.build', '*' + h + '*')):
                shutil.rmtree(g, ignore_errors=True)
    return finish(d, res)


def finish(d, res):
    json.dump(res, open(os.path.join(d, 'eval.json'), 'w'), indent=1)
    print(json.dumps({k: v for k, v in res.items() if k != 'checks'}, indent=1))
    return 0


if __name__ == '__main__':
    sys.exit(main())
