//! C14 driver: float <-> integer casts. group "tof": args a:T ; group "fromf": args bits32:u32 bits64:u64
use bnum_verif_harness::*;
use bnum::cast::{As, CastFrom};

macro_rules! body {
    (bnum, $T:ty, $U:ty, $S:ty $(, $rest:tt)*) => {
        group_fn! { tof; args; { let a: $T = args.v(0); };
            "to_f32" => As::as_::<f32>(a),
            "to_f64" => As::as_::<f64>(a),
            "castfrom_f32" => <f32 as CastFrom<$T>>::cast_from(a),
            "castfrom_f64" => <f64 as CastFrom<$T>>::cast_from(a),
        }
        group_fn! { fromf; args; { let x = f32::from_bits(args.u32(0)); let y = f64::from_bits(args.u128(1) as u64); };
            "from_f32" => As::as_::<$T>(x),
            "from_f64" => As::as_::<$T>(y),
            "castfrom_from_f32" => <$T as CastFrom<f32>>::cast_from(x),
            "castfrom_from_f64" => <$T as CastFrom<f64>>::cast_from(y),
        }
        pub fn run(g: &str, args: &Args, out: &mut String) -> bool {
            match g { "tof" => { tof(args, out); true } "fromf" => { fromf(args, out); true } _ => false }
        }
    };
    (prim, $T:ty, $U:ty, $S:ty $(, $rest:tt)*) => {
        group_fn! { tof; args; { let a: $T = args.v(0); };
            "to_f32" => a as f32,
            "to_f64" => a as f64,
        }
        group_fn! { fromf; args; { let x = f32::from_bits(args.u32(0)); let y = f64::from_bits(args.u128(1) as u64); };
            "from_f32" => x as $T,
            "from_f64" => y as $T,
        }
        pub fn run(g: &str, args: &Args, out: &mut String) -> bool {
            match g { "tof" => { tof(args, out); true } "fromf" => { fromf(args, out); true } _ => false }
        }
    };
}

for_cfgs!(gen_mods; run_bnum, bnum, body, body);
for_prims!(gen_mods; run_prim, prim, body, body);

fn run(cfg: &str, g: &str, args: &Args, out: &mut String) -> bool {
    run_bnum(cfg, g, args, out) || run_prim(cfg, g, args, out)
}

fn main() {
    main_loop("C14", run);
}
