#!/usr/bin/env python3
"""Development aid: union line coverage of bnum's sources over the workloads of ALL properties (which public code does no check reach?)."""
import glob, importlib, json, os, random, shutil, subprocess, sys
ROOT = os.path.dirname(os.path.dirname(os.path.abspath(__file__)))
sys.path.insert(0, os.path.join(ROOT, 'monitor'))
import core, run  # noqa
sysroot = subprocess.run(['rustc', '+nightly', '--print', 'sysroot'], capture_output=True, text=True).stdout.strip()
tools = os.path.join(sysroot, 'lib', 'rustlib', 'x86_64-unknown-linux-gnu', 'bin')
run.ensure_link()
env = run.cargo_env(); env['CARGO_TARGET_DIR'] = run.target_dir('cov'); env['RUSTFLAGS'] = '-Cinstrument-coverage'
props = ['c%02d' % i for i in range(1, 21) if i != 16]
cmd = ['cargo', '+nightly', 'build', '--offline', '--manifest-path', os.path.join(run.harness_dir(), 'Cargo.toml')]
for b in props: cmd += ['--bin', b]
subprocess.run(cmd, env=env, check=True, stdout=subprocess.DEVNULL, stderr=subprocess.DEVNULL)
covdir = os.path.join(run.BUILD, 'cov-union'); shutil.rmtree(covdir, ignore_errors=True); os.makedirs(covdir)
procs = []
for b in props:
    P = importlib.import_module('props.' + b)
    binpath = os.path.join(env['CARGO_TARGET_DIR'], 'debug', b)
    for cname in P.configs('quick'):
        cfg = core.Cfg(cname); rng = random.Random(core.h64('u/%s/%s' % (b, cname))); reqs = []
        for g, a in P.requests(cfg, rng, 200, 'quick', rng.randrange(1 << 20), 1 << 20, {'exhaustive': []}):
            reqs.append(run.encode_req(P, cfg, g, a))
            if len(reqs) >= 200: break
        if not reqs: continue
        f = os.path.join(covdir, '%s-%s.req' % (b, cname)); open(f, 'w').write('\n'.join(reqs) + '\n')
        procs.append(subprocess.Popen([binpath, '--in', f], env=dict(os.environ, LLVM_PROFILE_FILE=os.path.join(covdir, '%s-%s.profraw' % (b, cname))), stdout=subprocess.DEVNULL, stderr=subprocess.DEVNULL))
        if len(procs) >= 16: procs.pop(0).wait()
for p in procs: p.wait()
merged = os.path.join(covdir, 'm.profdata')
subprocess.run([os.path.join(tools, 'llvm-profdata'), 'merge', '-sparse', '-o', merged] + glob.glob(os.path.join(covdir, '*.profraw')), check=True)
objs = []
for b in props: objs += ['-object', os.path.join(env['CARGO_TARGET_DIR'], 'debug', b)]
out = subprocess.run([os.path.join(tools, 'llvm-cov'), 'export', '--format=lcov', '--instr-profile', merged] + objs[1:], capture_output=True, text=True).stdout
repo = run.repo_path(); cur = None; res = {}
for line in out.splitlines():
    if line.startswith('SF:'):
        cur = os.path.realpath(line[3:]); cur = cur[len(repo) + 1:] if cur.startswith(repo + '/') else None
        if cur: res.setdefault(cur, {})
    elif line.startswith('DA:') and cur:
        n, c = line[3:].split(',')[:2]; res[cur][int(n)] = max(res[cur].get(int(n), 0), int(c))
tot = hit = 0
for f in sorted(res):
    lines = res[f]; h = sum(1 for c in lines.values() if c); tot += len(lines); hit += h
    miss = sorted(n for n, c in lines.items() if not c)
    print('%-40s %4d/%4d  missed: %s' % (f, h, len(lines), ' '.join(map(str, miss[:60]))))
print('TOTAL %d/%d' % (hit, tot))
shutil.rmtree(covdir, ignore_errors=True)
