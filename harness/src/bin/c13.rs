//! C13 driver: checked conversions.
//! group "btry": args v (pattern of the source cfg) -> BTryFrom into every type of the sub-list, TryFrom into every primitive
//! group "fpt":  args d (number) b (0/1) c (char scalar) -> From / TryFrom from every primitive that can hold d into the cfg
//!               (only targets at least as wide as the source type and able to hold every source value, see DESIGN.md §9)
//! group "dig":  (unsigned cfgs of the main table) args v d(digit value)
use bnum_verif_harness::*;
use bnum::BTryFrom;

macro_rules! targets {
    ($Src:ty ; $(($n:ident, $T:ty)),*) => {
        group_fn! { to_bnum; args; { let a: $Src = args.v(0); };
            $( concat!("try_", stringify!($n)) => <$T as BTryFrom<$Src>>::try_from(a), )*
        }
        group_fn! { to_prim; args; { let a: $Src = args.v(0); };
            "try_u8" => <u8 as TryFrom<$Src>>::try_from(a), "try_u16" => <u16 as TryFrom<$Src>>::try_from(a),
            "try_u32" => <u32 as TryFrom<$Src>>::try_from(a), "try_u64" => <u64 as TryFrom<$Src>>::try_from(a),
            "try_u128" => <u128 as TryFrom<$Src>>::try_from(a), "try_usize" => <usize as TryFrom<$Src>>::try_from(a),
            "try_i8" => <i8 as TryFrom<$Src>>::try_from(a), "try_i16" => <i16 as TryFrom<$Src>>::try_from(a),
            "try_i32" => <i32 as TryFrom<$Src>>::try_from(a), "try_i64" => <i64 as TryFrom<$Src>>::try_from(a),
            "try_i128" => <i128 as TryFrom<$Src>>::try_from(a), "try_isize" => <isize as TryFrom<$Src>>::try_from(a),
        }
    };
}

macro_rules! val_setup {
    () => {
        macro_rules! val { ($X:ty, $args:ident) => {{
            let si: Option<i128> = match &$args.0[0] { Arg::D(i, _) => *i, _ => None };
            let su: Option<u128> = match &$args.0[0] { Arg::D(_, u) => *u, _ => None };
            let r: Option<$X> = match (si, su) {
                (Some(i), _) => <$X>::try_from(i).ok(),
                (None, Some(u)) => <$X>::try_from(u).ok(),
                _ => None };
            r }} }
    };
}
val_setup!();

group_fn! { calib; args; { let si: Option<i128> = match &args.0[0] { Arg::D(i, _) => *i, _ => None }; };
    "calib_try_u8" => si.map(|x| <u8 as TryFrom<i128>>::try_from(x)), "calib_try_u16" => si.map(|x| <u16 as TryFrom<i128>>::try_from(x)),
    "calib_try_u32" => si.map(|x| <u32 as TryFrom<i128>>::try_from(x)), "calib_try_u64" => si.map(|x| <u64 as TryFrom<i128>>::try_from(x)),
    "calib_try_u128" => si.map(|x| <u128 as TryFrom<i128>>::try_from(x)),
    "calib_try_i8" => si.map(|x| <i8 as TryFrom<i128>>::try_from(x)), "calib_try_i16" => si.map(|x| <i16 as TryFrom<i128>>::try_from(x)),
    "calib_try_i32" => si.map(|x| <i32 as TryFrom<i128>>::try_from(x)), "calib_try_i64" => si.map(|x| <i64 as TryFrom<i128>>::try_from(x)),
}

macro_rules! from_prim_u {
    ($T:ty) => {
        group_fn! { from_prim; args; { let b = args.bool(1); let c = char::from_u32(args.u32(2)).unwrap(); };
            "from_u8" => val!(u8, args).filter(|_| <$T>::BITS >= 8).map(|x| <$T as From<u8>>::from(x)),
            "from_u16" => val!(u16, args).filter(|_| <$T>::BITS >= 16).map(|x| <$T as From<u16>>::from(x)),
            "from_u32" => val!(u32, args).filter(|_| <$T>::BITS >= 32).map(|x| <$T as From<u32>>::from(x)),
            "from_u64" => val!(u64, args).filter(|_| <$T>::BITS >= 64).map(|x| <$T as From<u64>>::from(x)),
            "from_u128" => val!(u128, args).filter(|_| <$T>::BITS >= 128).map(|x| <$T as From<u128>>::from(x)),
            "from_usize" => val!(usize, args).filter(|_| <$T>::BITS >= 64).map(|x| <$T as From<usize>>::from(x)),
            "tryfrom_i8" => val!(i8, args).filter(|_| <$T>::BITS >= 8).map(|x| <$T as TryFrom<i8>>::try_from(x)),
            "tryfrom_i16" => val!(i16, args).filter(|_| <$T>::BITS >= 16).map(|x| <$T as TryFrom<i16>>::try_from(x)),
            "tryfrom_i32" => val!(i32, args).filter(|_| <$T>::BITS >= 32).map(|x| <$T as TryFrom<i32>>::try_from(x)),
            "tryfrom_i64" => val!(i64, args).filter(|_| <$T>::BITS >= 64).map(|x| <$T as TryFrom<i64>>::try_from(x)),
            "tryfrom_i128" => val!(i128, args).filter(|_| <$T>::BITS >= 128).map(|x| <$T as TryFrom<i128>>::try_from(x)),
            "tryfrom_isize" => val!(isize, args).filter(|_| <$T>::BITS >= 64).map(|x| <$T as TryFrom<isize>>::try_from(x)),
            "from_bool" => <$T as From<bool>>::from(b),
            "from_char" => if <$T>::BITS >= 32 { Some(<$T as From<char>>::from(c)) } else { None },
        }
    };
}
macro_rules! from_prim_i {
    ($T:ty) => {
        group_fn! { from_prim; args; { let b = args.bool(1); };
            "from_i8" => val!(i8, args).filter(|_| <$T>::BITS >= 8).map(|x| <$T as From<i8>>::from(x)),
            "from_i16" => val!(i16, args).filter(|_| <$T>::BITS >= 16).map(|x| <$T as From<i16>>::from(x)),
            "from_i32" => val!(i32, args).filter(|_| <$T>::BITS >= 32).map(|x| <$T as From<i32>>::from(x)),
            "from_i64" => val!(i64, args).filter(|_| <$T>::BITS >= 64).map(|x| <$T as From<i64>>::from(x)),
            "from_i128" => val!(i128, args).filter(|_| <$T>::BITS >= 128).map(|x| <$T as From<i128>>::from(x)),
            "from_isize" => val!(isize, args).filter(|_| <$T>::BITS >= 64).map(|x| <$T as From<isize>>::from(x)),
            "from_u8" => val!(u8, args).filter(|_| <$T>::BITS > 8).map(|x| <$T as From<u8>>::from(x)),
            "from_u16" => val!(u16, args).filter(|_| <$T>::BITS > 16).map(|x| <$T as From<u16>>::from(x)),
            "from_u32" => val!(u32, args).filter(|_| <$T>::BITS > 32).map(|x| <$T as From<u32>>::from(x)),
            "from_u64" => val!(u64, args).filter(|_| <$T>::BITS > 64).map(|x| <$T as From<u64>>::from(x)),
            "from_u128" => val!(u128, args).filter(|_| <$T>::BITS > 128).map(|x| <$T as From<u128>>::from(x)),
            "from_usize" => val!(usize, args).filter(|_| <$T>::BITS > 64).map(|x| <$T as From<usize>>::from(x)),
            "from_bool" => <$T as From<bool>>::from(b),
        }
    };
}

macro_rules! sources {
    ($(($n:ident, $T:ty)),*) => {
        $(
            #[allow(non_snake_case, unused_imports)]
            pub mod $n {
                use super::*;
                for_cast_types!(targets; $T);
                pub fn run(g: &str, args: &Args, out: &mut String) -> bool {
                    match g {
                        "btry" => { to_bnum(args, out); to_prim(args, out); true }
                        _ => false }
                }
            }
        )*
        pub fn run_pairs(cfg: &str, g: &str, args: &Args, out: &mut String) -> bool {
            match cfg { $( stringify!($n) => $n::run(g, args, out), )* _ => false }
        }
    };
    (; $($rest:tt)*) => { sources!($($rest)*); };
}
for_cast_types!(sources;);

macro_rules! body_u {
    ($kind:tt, $T:ty, $U:ty, $S:ty, $D:ty, $N:tt) => {
        from_prim_u!($T);
        group_fn! { dig; args; {
                let le = match &args.0[0] { Arg::X(le) => le.clone(), _ => panic!() };
                let d = args.u128(1) as $D;
                const DB: usize = core::mem::size_of::<$D>();
                let mut arr = [0 as $D; $N];
                for (i, x) in le.iter().enumerate() { if i / DB < $N { arr[i / DB] |= (*x as $D) << (8 * (i % DB)); } }
                let mut be = le.clone(); be.resize($N * DB, 0); be.reverse();
                let via_slice = <$T>::from_be_slice(&be).unwrap();
            };
            "from_digits_hex" => <$T>::from_digits(arr).to_str_radix(16),
            "from_array_hex" => <$T as From<[$D; $N]>>::from(arr).to_str_radix(16),
            "digits_of_parsed" => { let v: Vec<u8> = via_slice.digits().iter().flat_map(|x| x.to_le_bytes()).collect(); v },
            "into_array" => { let a: [$D; $N] = via_slice.into(); let v: Vec<u8> = a.iter().flat_map(|x| x.to_le_bytes()).collect(); v },
            "digits_mut_roundtrip" => { let mut z = <$T>::ZERO; *z.digits_mut() = arr; z },
            "from_digit_hex" => <$T>::from_digit(d).to_str_radix(16),
            "from_digit" => <$T>::from_digit(d),
        }
        pub fn run(g: &str, args: &Args, out: &mut String) -> bool {
            match g { "fpt" => { from_prim(args, out); calib(args, out); true } "dig" => { dig(args, out); true } _ => false }
        }
    };
}
macro_rules! body_i {
    ($kind:tt, $T:ty, $U:ty, $S:ty $(, $rest:tt)*) => {
        from_prim_i!($T);
        pub fn run(g: &str, args: &Args, out: &mut String) -> bool {
            match g { "fpt" => { from_prim(args, out); calib(args, out); true } _ => false }
        }
    };
}
mod main_mods {
    use super::*;
    for_cfgs!(gen_mods; run_main, bnum, body_u, body_i);
}

fn run(cfg: &str, g: &str, args: &Args, out: &mut String) -> bool {
    if g == "btry" { run_pairs(cfg, g, args, out) } else { main_mods::run_main(cfg, g, args, out) }
}

fn main() {
    main_loop("C13", run);
}
