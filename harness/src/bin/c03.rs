//! C03 driver: division and remainder. group "dr": args n:T d:T ; group "dd" (unsigned): n:T digit
use bnum_verif_harness::*;

macro_rules! common_list {
    ($f:ident, $T:ty) => {
        group_fn! { $f; args; { let a: $T = args.v(0); let b: $T = args.v(1); };
            "div" => a / b,
            "rem" => a % b,
            "checked_div" => a.checked_div(b),
            "checked_rem" => a.checked_rem(b),
            "checked_div_euclid" => a.checked_div_euclid(b),
            "checked_rem_euclid" => a.checked_rem_euclid(b),
            "wrapping_div" => a.wrapping_div(b),
            "wrapping_rem" => a.wrapping_rem(b),
            "wrapping_div_euclid" => a.wrapping_div_euclid(b),
            "wrapping_rem_euclid" => a.wrapping_rem_euclid(b),
            "overflowing_div" => a.overflowing_div(b),
            "overflowing_rem" => a.overflowing_rem(b),
            "overflowing_div_euclid" => a.overflowing_div_euclid(b),
            "overflowing_rem_euclid" => a.overflowing_rem_euclid(b),
            "saturating_div" => a.saturating_div(b),
            "div_euclid" => a.div_euclid(b),
            "rem_euclid" => a.rem_euclid(b),
            "strict_div" => a.strict_div(b),
            "strict_rem" => a.strict_rem(b),
            "strict_div_euclid" => a.strict_div_euclid(b),
            "strict_rem_euclid" => a.strict_rem_euclid(b),
        }
    };
}

macro_rules! round_list {
    ($f:ident, $T:ty) => {
        group_fn! { $f; args; { let a: $T = args.v(0); let b: $T = args.v(1); };
            "div_ceil" => a.div_ceil(b),
            "next_multiple_of" => a.next_multiple_of(b),
            "checked_next_multiple_of" => a.checked_next_multiple_of(b),
        }
    };
}

macro_rules! body_u {
    (bnum, $T:ty, $U:ty, $S:ty, $D:ty, $N:tt) => {
        common_list!(common, $T);
        round_list!(round, $T);
        group_fn! { extra; args; { let a: $T = args.v(0); let b: $T = args.v(1); };
            "div_floor" => a.div_floor(b),
        }
        group_fn! { digit; args; { let a: $T = args.v(0); let d = args.u128(1); };
            "div_digit" => a / (d as $D),
            "rem_digit" => Hex(a % (d as $D)),
        }
        pub fn run(g: &str, args: &Args, out: &mut String) -> bool {
            match g {
                "dr" => { common(args, out); round(args, out); extra(args, out); true }
                "dd" => { digit(args, out); true }
                _ => false
            }
        }
    };
    (prim, $T:ty, $U:ty, $S:ty $(, $rest:tt)*) => {
        common_list!(common, $T);
        round_list!(round, $T);
        pub fn run(g: &str, args: &Args, out: &mut String) -> bool {
            match g { "dr" => { common(args, out); round(args, out); true } _ => false }
        }
    };
}

macro_rules! body_i {
    (bnum, $T:ty, $U:ty, $S:ty $(, $rest:tt)*) => {
        common_list!(common, $T);
        round_list!(round, $T);
        group_fn! { extra; args; { let a: $T = args.v(0); let b: $T = args.v(1); };
            "div_floor" => a.div_floor(b),
        }
        pub fn run(g: &str, args: &Args, out: &mut String) -> bool {
            match g { "dr" => { common(args, out); round(args, out); extra(args, out); true } _ => false }
        }
    };
    (prim, $T:ty, $U:ty, $S:ty $(, $rest:tt)*) => {
        common_list!(common, $T);
        pub fn run(g: &str, args: &Args, out: &mut String) -> bool {
            match g { "dr" => { common(args, out); true } _ => false }
        }
    };
}

for_cfgs!(gen_mods; run_bnum, bnum, body_u, body_i);
for_prims!(gen_mods; run_prim, prim, body_u, body_i);

fn run(cfg: &str, g: &str, args: &Args, out: &mut String) -> bool {
    run_bnum(cfg, g, args, out) || run_prim(cfg, g, args, out)
}

fn main() {
    main_loop("C03", run);
}
