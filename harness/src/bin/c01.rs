//! C01 driver: add / sub / neg / abs family in every overflow mode.
//! group "as": args a:T b:T c:bool
use bnum_verif_harness::*;

macro_rules! body_u {
    (bnum, $T:ty, $U:ty, $S:ty $(, $rest:tt)*) => {
        body_u!(@common $T, $U, $S);
        group_fn! { extra; args; { let a: $T = args.v(0); let b: $T = args.v(1); let c = args.bool(2); let bs: $S = args.v(1); };
            "strict_add_signed" => a.strict_add_signed(bs),
        }
        pub fn run(g: &str, args: &Args, out: &mut String) -> bool {
            match g { "as" => { common(args, out); extra(args, out); true } _ => false }
        }
    };
    (prim, $T:ty, $U:ty, $S:ty $(, $rest:tt)*) => {
        body_u!(@common $T, $U, $S);
        pub fn run(g: &str, args: &Args, out: &mut String) -> bool {
            match g { "as" => { common(args, out); true } _ => false }
        }
    };
    (@common $T:ty, $U:ty, $S:ty) => {
        group_fn! { common; args; { let a: $T = args.v(0); let b: $T = args.v(1); let c = args.bool(2); let bs: $S = args.v(1); };
            "overflowing_add" => a.overflowing_add(b),
            "overflowing_sub" => a.overflowing_sub(b),
            "checked_add" => a.checked_add(b),
            "checked_sub" => a.checked_sub(b),
            "wrapping_add" => a.wrapping_add(b),
            "wrapping_sub" => a.wrapping_sub(b),
            "saturating_add" => a.saturating_add(b),
            "saturating_sub" => a.saturating_sub(b),
            "strict_add" => a.strict_add(b),
            "strict_sub" => a.strict_sub(b),
            "overflowing_add_signed" => a.overflowing_add_signed(bs),
            "checked_add_signed" => a.checked_add_signed(bs),
            "wrapping_add_signed" => a.wrapping_add_signed(bs),
            "saturating_add_signed" => a.saturating_add_signed(bs),
            "carrying_add" => a.carrying_add(b, c),
            "borrowing_sub" => a.borrowing_sub(b, c),
            "abs_diff" => a.abs_diff(b),
            "midpoint" => a.midpoint(b),
            "overflowing_neg" => a.overflowing_neg(),
            "checked_neg" => a.checked_neg(),
            "wrapping_neg" => a.wrapping_neg(),
            "strict_neg" => a.strict_neg(),
            "unchecked_add" => match a.checked_add(b) { Some(_) => Some(unsafe { a.unchecked_add(b) }), None => None },
            "unchecked_sub" => match a.checked_sub(b) { Some(_) => Some(unsafe { a.unchecked_sub(b) }), None => None },
        }
    };
}

macro_rules! body_i {
    (bnum, $T:ty, $U:ty, $S:ty $(, $rest:tt)*) => {
        body_i!(@common $T, $U, $S);
        group_fn! { extra; args; { let a: $T = args.v(0); let b: $T = args.v(1); let c = args.bool(2); let bu: $U = args.v(1); };
            "carrying_add" => a.carrying_add(b, c),
            "borrowing_sub" => a.borrowing_sub(b, c),
            "strict_add_unsigned" => a.strict_add_unsigned(bu),
            "strict_sub_unsigned" => a.strict_sub_unsigned(bu),
        }
        pub fn run(g: &str, args: &Args, out: &mut String) -> bool {
            match g { "as" => { common(args, out); extra(args, out); true } _ => false }
        }
    };
    (prim, $T:ty, $U:ty, $S:ty $(, $rest:tt)*) => {
        body_i!(@common $T, $U, $S);
        pub fn run(g: &str, args: &Args, out: &mut String) -> bool {
            match g { "as" => { common(args, out); true } _ => false }
        }
    };
    (@common $T:ty, $U:ty, $S:ty) => {
        group_fn! { common; args; { let a: $T = args.v(0); let b: $T = args.v(1); let c = args.bool(2); let bu: $U = args.v(1); };
            "overflowing_add" => a.overflowing_add(b),
            "overflowing_sub" => a.overflowing_sub(b),
            "checked_add" => a.checked_add(b),
            "checked_sub" => a.checked_sub(b),
            "wrapping_add" => a.wrapping_add(b),
            "wrapping_sub" => a.wrapping_sub(b),
            "saturating_add" => a.saturating_add(b),
            "saturating_sub" => a.saturating_sub(b),
            "strict_add" => a.strict_add(b),
            "strict_sub" => a.strict_sub(b),
            "overflowing_add_unsigned" => a.overflowing_add_unsigned(bu),
            "checked_add_unsigned" => a.checked_add_unsigned(bu),
            "wrapping_add_unsigned" => a.wrapping_add_unsigned(bu),
            "saturating_add_unsigned" => a.saturating_add_unsigned(bu),
            "overflowing_sub_unsigned" => a.overflowing_sub_unsigned(bu),
            "checked_sub_unsigned" => a.checked_sub_unsigned(bu),
            "wrapping_sub_unsigned" => a.wrapping_sub_unsigned(bu),
            "saturating_sub_unsigned" => a.saturating_sub_unsigned(bu),
            "abs_diff" => a.abs_diff(b),
            "midpoint" => a.midpoint(b),
            "overflowing_neg" => a.overflowing_neg(),
            "checked_neg" => a.checked_neg(),
            "wrapping_neg" => a.wrapping_neg(),
            "saturating_neg" => a.saturating_neg(),
            "strict_neg" => a.strict_neg(),
            "overflowing_abs" => a.overflowing_abs(),
            "checked_abs" => a.checked_abs(),
            "wrapping_abs" => a.wrapping_abs(),
            "saturating_abs" => a.saturating_abs(),
            "strict_abs" => a.strict_abs(),
            "unsigned_abs" => a.unsigned_abs(),
            "unchecked_add" => match a.checked_add(b) { Some(_) => Some(unsafe { a.unchecked_add(b) }), None => None },
            "unchecked_sub" => match a.checked_sub(b) { Some(_) => Some(unsafe { a.unchecked_sub(b) }), None => None },
        }
    };
}

for_cfgs!(gen_mods; run_bnum, bnum, body_u, body_i);
for_prims!(gen_mods; run_prim, prim, body_u, body_i);

fn run(cfg: &str, g: &str, args: &Args, out: &mut String) -> bool {
    run_bnum(cfg, g, args, out) || run_prim(cfg, g, args, out)
}

fn main() {
    main_loop("C01", run);
}
