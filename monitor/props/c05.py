"""C05 — shifts move bits by exactly s places; rotations permute the BITS-bit pattern."""
import core
import gen
from core import PANIC, ANY, NOPANIC, opt, Some
from props.common import thorough_aux, default_encode, default_decode, split_range

PROP = 'C05'
BIN = 'c05'
SIG = {'sh': 'xd'}
encode = default_encode(SIG)
decode = default_decode(SIG)
TASK_REQS = 4000
RULE = ('requests (value, amount): values from the structured families (negative values whose sign fill crosses digit boundaries, '
        'sparse patterns, extreme digits); amounts 0, 1, D-1, D, D+1, BITS-1, BITS, BITS+1, 2*BITS.., 2^31, u32::MAX, multiples of '
        'the digit size +-1, uniform; every amount 0..=2*BITS+1 on a value sample for every type; all values x all amounts '
        '0..=2*BITS at 8 bits. Non-trivial: bit offset != 0 with digit offset != 0, amount >= BITS, negative value shifted right, '
        'rotation by an amount >= BITS or on a width that is not a power of two; distinct = distinct request lines')


def configs(tier):
    return core.cfg_names(full=(tier == 'thorough'))


def budget(cfg, tier):
    base = 4000 if tier == 'quick' else 40000
    if cfg.bits == 8:
        return 256 * 20
    if cfg.bits == 16:
        return (4096 if tier == 'quick' else 65536) * 34
    if cfg.n >= 1024:
        return base // 8
    return base


def requests(cfg, rng, n, tier, part, nparts, st):
    b = cfg.bits
    if b == 8:
        extra = (1 << 31, (1 << 32) - 1, 255)
        total = 256 * 20
        lo, hi = split_range(total, part, nparts)
        for i in range(lo, hi):
            s = i // 256
            yield 'sh', (cfg.val(i % 256), s if s < 17 else extra[s - 17])
        st['exhaustive'].append('%s: all values x all amounts 0..=2*BITS' % cfg.name)
        return
    if b == 16:
        nv = 4096 if tier == 'quick' else 65536
        total = nv * 34
        lo, hi = split_range(total, part, nparts)
        for i in range(lo, hi):
            v = i % nv
            if nv != 65536:
                v = (v * 40503 + 12345) & 0xffff if v >= 64 else (0, 1, 0xffff, 0x8000, 0x7fff, 0xff, 0x100, 0xff00)[v % 8] ^ (v >> 3)
            yield 'sh', (cfg.val(v), i // nv)
        if nv == 65536:
            st['exhaustive'].append('%s: all values x all amounts 0..=2*BITS+1' % cfg.name)
        return
    # every amount 0..=2*BITS+1 on a few values (split over parts), then the mixture
    sweep = min(n // 2, 2 * b + 2)
    vals = [gen.value(cfg, rng) for _ in range(3)] + [cfg.min, cfg.wrap(-1), cfg.wrap(cfg.max // 3)]
    start = rng.randrange(2 * b + 2)
    for k in range(sweep):
        s = (start + k * max(1, (2 * b + 2) // sweep)) % (2 * b + 2) if sweep < 2 * b + 2 else k
        yield 'sh', (vals[k % len(vals)], s)
    for _ in range(n - sweep):
        r = rng.random()
        if r < 0.5:
            a = gen.value(cfg, rng)
        elif r < 0.75 and cfg.signed:
            a = -abs(gen.value(cfg, rng)) - 1
        else:
            a = gen.sparse(cfg, rng)
        yield 'sh', (cfg.wrap(a), gen.amount(cfg, rng))


def rotl(cfg, p, k):
    k %= cfg.bits
    return ((p << k) | (p >> (cfg.bits - k))) & cfg.mask if k else p


def model(cfg, ctx, group, args):
    a, s = args
    b = cfg.bits
    exp = {}
    cls = set()
    big = s >= b
    if not big:
        l = cfg.wrap(a << s)
        r = a >> s
        for nm, v in (('shl', l), ('shr', r)):
            exp[nm] = v
            exp['checked_' + nm] = Some(v)
            exp['wrapping_' + nm] = v
            exp['overflowing_' + nm] = (v, False)
            exp['strict_' + nm] = v
            exp['unbounded_' + nm] = v
            exp['unchecked_' + nm] = Some(v)
    else:
        if cfg.pow2:
            k = s % b
            l = cfg.wrap(a << k)
            r = a >> k
        else:
            l = r = ANY
        for nm, v in (('shl', l), ('shr', r)):
            exp[nm] = PANIC if ctx['dbg'] else (v if v is not ANY else NOPANIC)
            exp['checked_' + nm] = None
            exp['wrapping_' + nm] = v if v is not ANY else NOPANIC
            exp['overflowing_' + nm] = (v, True)
            exp['strict_' + nm] = PANIC
            exp['unchecked_' + nm] = None
        exp['unbounded_shl'] = 0
        exp['unbounded_shr'] = -1 if a < 0 else 0
        cls.add('amount>=BITS' + ('' if cfg.pow2 else ' (width not a power of two)'))
        if s >= 2 * b:
            cls.add('amount>=2*BITS')
    # the same shift through the operators with other primitive amount types (the amount s itself is always a u32 here)
    for t, hi in (('i32', 2 ** 31 - 1), ('usize', 2 ** 64 - 1), ('i64', 2 ** 63 - 1), ('u128', 2 ** 128 - 1), ('u8', 255), ('i16', 2 ** 15 - 1),
                  ('i8', 127), ('u16', 65535), ('u64', 2 ** 64 - 1), ('i128', 2 ** 127 - 1), ('isize', 2 ** 63 - 1)):
        for nm in ('shl', 'shr'):
            e = exp[nm]
            if s > hi:
                exp['%s_%s' % (nm, t)] = None
            elif e == PANIC:
                exp['%s_%s' % (nm, t)] = PANIC
            elif e is NOPANIC:
                exp['%s_%s' % (nm, t)] = NOPANIC
            else:
                exp['%s_%s' % (nm, t)] = Some(e)
    p = cfg.pat(a)
    exp['rotate_left'] = cfg.val(rotl(cfg, p, s))
    exp['rotate_right'] = cfg.val(rotl(cfg, p, -s))
    exp['rotl_then_rotr'] = a
    exp['rotr_then_rotl'] = a
    d = '@d%d' % cfg.dbits
    k = s % b
    if a not in (0, -1) and p != cfg.mask:
        if not cfg.pow2:
            cls.add('rotation on non-power-of-two width%s' % (', amount>=BITS' if big else ''))
            if (s & (b - 1)) != k:
                cls.add('rotation amount where n & (BITS-1) != n mod BITS')
        elif big:
            cls.add('rotation amount>=BITS')
        if not big:
            bo, do = s % cfg.dbits, s // cfg.dbits
            if bo and do:
                cls.add('bit offset and digit offset both non-zero' + d)
            elif do and not bo:
                cls.add('whole-digit shift' + d)
            if do == cfg.n - 1 and cfg.n > 1:
                cls.add('digit offset N-1' + d)
            if a < 0 and s:
                cls.add('negative value shifted right (sign fill)' + d)
    if not cls:
        cls.add('plain')
    return exp, cls


REQUIRED = ['amount>=BITS', 'amount>=BITS (width not a power of two)', 'amount>=2*BITS', 'rotation amount>=BITS',
            'rotation on non-power-of-two width', 'rotation on non-power-of-two width, amount>=BITS',
            'rotation amount where n & (BITS-1) != n mod BITS'] + \
    [c + '@d%d' % d for d in (8, 16, 32, 64) for c in ('bit offset and digit offset both non-zero', 'whole-digit shift', 'digit offset N-1',
                                                       'negative value shifted right (sign fill)')]


def floors(st, tier):
    return ['class %r never observed' % c for c in REQUIRED if st['classes'].get(c, 0) == 0]


extra_passes = thorough_aux('props.c05', ('miri',), exh=True)
