"""C03 — division and remainder: n = q*d + r with the documented rounding."""
import core
import gen
from core import PANIC, ANY, opt, Some
from props.common import thorough_aux, default_encode, default_decode, split_range

PROP = 'C03'
BIN = 'c03'
SIG = {'dr': 'xx', 'dd': 'xd'}
encode = default_encode(SIG)
decode = default_decode(SIG)
TASK_REQS = 2000
RULE = ('requests (n, d): structured operands; dividend </=/> divisor; single-digit divisors; the (m, n) digit-length grid; '
        'n = q*d + r with r in {0, 1, d-1}; exact multiples of divisors made of one generic leading digit (emphasis just above B/2) followed by (almost) zero digits, so that every partial remainder leads with an exact multiple of the leading divisor digit; constructed Knuth-D hard cases at every digit size (q-hat corrected once/twice, the '
        'q-hat = B-1 branch, add-back, normalisation shift 0 and D-1); signed: all sign combinations, MIN, -1; zero divisors; all '
        '2^16 pairs at 8 bits and a dividend-exhaustive slice at 16 bits. The monitor classifies each request by its own simulation '
        'of Algorithm D at the same digit base. Non-trivial: multi-digit (Knuth) path, any correction/add-back, negative operand '
        'with non-zero remainder (rounding adjustments), MIN / -1, zero divisor; distinct = distinct request lines')


def configs(tier):
    return core.cfg_names(full=(tier == 'thorough'))


def budget(cfg, tier):
    base = 3000 if tier == 'quick' else 30000
    if cfg.bits == 8:
        return 65536
    if cfg.bits == 16 and cfg.dbits == 8:
        return 65536 * (2 if tier == 'quick' else 16)
    if cfg.n >= 1024:
        return 40 if tier == 'quick' else 200
    if cfg.n >= 128:
        return base // 10
    return base


# ------------------------------------------------------------------ Algorithm D simulation (classification only)

def knuth_classes(B, D, u, v):
    """u > v >= B (magnitudes). Returns set of path classes."""
    cls = set()
    n = (v.bit_length() + D - 1) // D
    ul = (u.bit_length() + D - 1) // D
    m = ul - n
    s = D * n - v.bit_length()
    vn = v << s
    un = u << s
    v1 = vn >> (D * (n - 1))
    v2 = (vn >> (D * (n - 2))) & (B - 1)
    cls.add('shift=0' if s == 0 else ('shift=D-1' if s == D - 1 else 'shift=mid'))
    win_mask = (1 << (D * (n + 1))) - 1
    for j in range(m, -1, -1):
        t = (un >> (D * j)) & win_mask
        u0 = t >> (D * n)
        u1 = (t >> (D * (n - 1))) & (B - 1)
        u2 = (t >> (D * (n - 2))) & (B - 1)
        if u0 < v1:
            qhat, rhat = divmod(u0 * B + u1, v1)
            c = 0
            if qhat * v2 > rhat * B + u2:
                qhat -= 1
                rhat += v1
                c = 1
                if rhat < B and qhat * v2 > rhat * B + u2:
                    qhat -= 1
                    c = 2
            if c:
                cls.add('qhat corrected %s' % ('once' if c == 1 else 'twice'))
        else:
            qhat = B - 1
            cls.add('qhat=B-1 branch')
        t2 = t - qhat * vn
        if t2 < 0:
            cls.add('add-back')
            t2 += vn
            qhat -= 1
            if t2 < 0:  # B-1 branch may need it twice in a textbook variant
                t2 += vn
                qhat -= 1
        un += (t2 - t) << (D * j)
    return cls, m, n


# ------------------------------------------------------------------ constructed hard cases

def _norm_v(cfg, rng, n, low_big=False):
    B, D = cfg.B, cfg.dbits
    v1 = rng.choice((B >> 1, (B >> 1) + 1, B - 1, B - 2, rng.randrange(B >> 1, B)))
    rest = 0
    for i in range(n - 1):
        d = rng.choice((B - 1, B - 1, B - 2, 0, 1, rng.getrandbits(D))) if not low_big else rng.choice((B - 1, B - 2, rng.getrandbits(D) | (B >> 1)))
        rest = (rest << D) | d
    return (v1 << (D * (n - 1))) | rest


def hard_case(cfg, rng, kind):
    """returns (u, v) magnitudes fitting cfg.n digits, or None"""
    B, D, N = cfg.B, cfg.dbits, cfg.n
    if N < 2:
        return None
    for _ in range(30):
        n = rng.randrange(3 if (kind == 'addback' and N >= 3) else 2, min(N, 6) + 1) if N > 2 else 2
        s = rng.choice((0, 0, D - 1, 1, rng.randrange(D)))
        if kind == 'addback':
            if n < 3:
                kind2 = 'maxbranch'
            else:
                kind2 = 'addback'
        else:
            kind2 = kind
        if kind2 == 'addback':
            Vn = _norm_v(cfg, rng, n, low_big=True)
            Vn &= ~((1 << s) - 1)
            t = Vn >> (D * (n - 2))
            if Vn & ((1 << (D * (n - 2))) - 1) == 0:
                continue
            q1 = rng.choice((1, 2, B - 1, B >> 1, rng.randrange(1, B)))
            U = q1 * t << (D * (n - 2))
        elif kind2 == 'maxbranch':
            v1 = rng.randrange(B >> 1, B - 1)
            v2 = rng.randrange(v1 + 1, B) if v1 + 1 < B else B - 1
            Vn = (v1 << D | v2) << (D * (n - 2))
            if n > 2:
                Vn |= rng.getrandbits(D * (n - 2))
            Vn &= ~((1 << s) - 1)
            if (Vn >> (D * (n - 2))) & (B - 1) <= v1:
                continue
            U = Vn * B - Vn - 1 - rng.choice((0, 0, 1, rng.getrandbits(D)))
            U -= U % (1 << s)
            if U < 0 or (U >> (D * n)) != v1:
                if rng.random() < 0.5:
                    continue
                U = Vn * B - 1 - rng.getrandbits(D)  # plain B-1 branch without add-back
                U -= U % (1 << s)
        else:  # 'double'
            v1 = (B >> 1) + rng.choice((0, 0, 1, 2, rng.randrange(0, max(1, B >> 3))))
            v2 = rng.choice((B - 1, B - 2, B - 1 - rng.randrange(0, max(1, B >> 3))))
            Vn = (v1 << D | v2) << (D * (n - 2))
            if n > 2:
                Vn |= rng.getrandbits(D * (n - 2))
            Vn &= ~((1 << s) - 1)
            u0 = rng.randrange(0, v1)
            u1 = rng.choice((B - 1, B - 2, rng.getrandbits(D)))
            u2 = rng.choice((0, 1, rng.getrandbits(D) >> 3))
            U = ((u0 << D | u1) << D | u2) << (D * (n - 2))
            if U >= Vn * B:
                continue
        R = U >> D
        if R >= Vn:
            continue
        # embed the window: either as the first iteration (top digit must be < 2^s) or after a prefix quotient digit
        room = N - (n + 1)
        if room >= 1 and rng.random() < 0.8:
            k = rng.randrange(0, room)
            h = rng.choice((0, 1, B - 1, rng.randrange(B)))
            low = rng.getrandbits(D * k) if k else 0
            if k:
                low &= ~((1 << s) - 1)
            elif (U & (B - 1)) % (1 << s):
                continue
            un = ((h * Vn + R) << (D * (k + 1))) | ((U & (B - 1)) << (D * k)) | low
        else:
            if (U >> (D * n)) >= (1 << s) or U % (1 << s):
                continue
            un = U
        u, v = un >> s, Vn >> s
        if u.bit_length() > cfg.bits or v < B or u <= v:
            continue
        return u, v
    return None


def magnitudes(cfg, rng):
    """(u, v) unsigned magnitudes for an N-digit type"""
    B, D, N = cfg.B, cfg.dbits, cfg.n
    U = cfg.U()
    r = rng.random()
    if r < 0.16:
        return abs(gen.value(U, rng)), abs(gen.value(U, rng))
    if r < 0.24:
        u = gen.value(U, rng)
        return u, gen.short(U, rng) if rng.random() < 0.7 else gen.related(U, rng, u)
    if r < 0.32:
        # single digit divisor, multi-digit dividend
        return gen.value(U, rng), rng.choice((1, 2, 3, B - 1, B >> 1, rng.randrange(1, B)))
    if r < 0.50 and N >= 2:
        # the (m, n) grid
        n = rng.randrange(2, N + 1)
        l = rng.randrange(n, N + 1)
        top = rng.choice((1, B - 1, B >> 1, (B >> 1) - 1, rng.randrange(1, B)))
        v = (top << (D * (n - 1))) | (rng.getrandbits(D * (n - 1)) if rng.random() < 0.7 else gen.extreme_digits(core.Cfg('u%dx%d' % (D, n - 1)), rng) & ((1 << D * (n - 1)) - 1))
        u = gen.extreme_digits(core.Cfg('u%dx%d' % (D, l)), rng) if rng.random() < 0.4 else rng.getrandbits(D * l)
        if rng.random() < 0.5:
            u |= 1 << (D * l - 1 - rng.randrange(D))
        return u, v
    if r < 0.57 and N >= 2:
        # exact multiples (plus a small remainder) of a divisor that is one generic leading digit followed by (almost) zero digits: at every step the
        # two leading digits of the running remainder are then an exact multiple q_j * v1 of the leading divisor digit - the case in which a
        # 2-by-1 division by reciprocal, or any quotient-digit estimate, has no slack. v1 is emphasised just above B/2 (a normalised divisor
        # with the smallest leading digit), where reciprocal estimates are least accurate.
        n = rng.randrange(2, N + 1) if N > 2 else 2
        c = rng.random()
        if c < 0.45:
            v1 = (B >> 1) + rng.randrange(0, max(1, B >> 3))
        elif c < 0.6:
            v1 = rng.choice((B >> 1, (B >> 1) + 1, B - 1, B - 2))
        elif c < 0.8:
            v1 = rng.randrange(B >> 1, B)
        else:
            v1 = rng.randrange(1, B)
        e = rng.choice((0, 1, 1, 2, B - 1, rng.randrange(B)))
        if n > 2 and rng.random() < 0.2:
            e |= rng.choice((1, B - 1)) << (D * rng.randrange(1, n - 1))
        d = (v1 << (D * (n - 1))) | e
        qmax = U.max // d
        q = rng.getrandbits(D * rng.randrange(1, N - n + 2)) % (qmax + 1)
        if rng.random() < 0.3:
            q = min(qmax, gen.extreme_digits(U, rng) >> (D * (n - 1)))
        rem = rng.choice((0, 0, 1, d - 1, rng.randrange(d)))
        u = q * d + rem
        if u > U.max:
            u = q * d
        return u, d
    if r < 0.66:
        # n = q*d + r
        d = gen.short(U, rng) if rng.random() < 0.8 else gen.value(U, rng)
        d = abs(d) or 1
        qmax = U.max // d
        # quotients with structured digits (all-ones digits make the q-hat = B-1 branch hit exact ties when the remainder is zero)
        qs = gen.extreme_digits(U, rng) >> (cfg.dbits * rng.randrange(cfg.n))
        q = rng.choice((0, 1, qmax, qmax - 1 if qmax else 0, rng.randrange(qmax + 1), min(qs, qmax), min(qs, qmax), qs % (qmax + 1)))
        rem = rng.choice((0, 1, d - 1, rng.randrange(d)))
        u = q * d + rem
        if u > U.max:
            u = q * d
        return u, d
    if r < 0.76:
        h = hard_case(cfg, rng, 'addback')
        if h:
            return h
    elif r < 0.84:
        h = hard_case(cfg, rng, 'maxbranch')
        if h:
            return h
    elif r < 0.94:
        h = hard_case(cfg, rng, 'double')
        if h:
            return h
    u = gen.extreme_digits(U, rng)
    return u, gen.extreme_digits(U, rng) >> (D * rng.randrange(N))


def requests(cfg, rng, n, tier, part, nparts, st, exhaustive=True):
    if cfg.bits == 8 and exhaustive:
        lo, hi = split_range(65536, part, nparts)
        for i in range(lo, hi):
            yield 'dr', (cfg.val(i & 255), cfg.val(i >> 8))
            if not cfg.signed and (i >> 8) % 16 == 0:
                yield 'dd', (cfg.val(i & 255), (i >> 8) & 255)
        st['exhaustive'].append('%s: all 2^16 (n, d) pairs' % cfg.name)
        return
    if cfg.bits == 16 and cfg.dbits == 8 and exhaustive:
        # smallest type that runs Algorithm D: all dividends against sampled two-digit divisors
        k = 2 if tier == 'quick' else 16
        rr = __import__('random').Random(cfg.name + str(k))
        divisors = sorted(set([256, 257, 0x7fff, 0x8000, 0x80ff, 0xff00, 0xffff, 0x0100, 0x01ff, 0x8001][:k] + [rr.randrange(256, 65536) for _ in range(k)]))[:k]
        total = 65536 * len(divisors)
        lo, hi = split_range(total, part, nparts)
        for i in range(lo, hi):
            yield 'dr', (cfg.val(i & 0xffff), cfg.val(divisors[i >> 16]))
        st['exhaustive'].append('%s: all 2^16 dividends x %d two-digit divisors' % (cfg.name, len(divisors)))
        return
    gcfg = cfg
    if cfg.signed and cfg.n >= 3:
        gcfg = core.Cfg('u%dx%d' % (cfg.dbits, cfg.n - 1))
    for _ in range(n):
        r = rng.random()
        if r < 0.04:
            a, b = gen.value(cfg, rng), 0
        elif r < 0.10 and cfg.signed:
            a = rng.choice((cfg.min, cfg.min, cfg.min + 1, cfg.max, gen.value(cfg, rng)))
            b = rng.choice((-1, -1, 1, cfg.min, cfg.max, 2, -2))
        else:
            u, v = magnitudes(gcfg if rng.random() < 0.8 else cfg.U(), rng)
            if cfg.signed:
                lim = 1 << (cfg.bits - 1)
                sa = rng.random() < 0.5
                sb = rng.random() < 0.5
                a = -(u % (lim + 1)) if sa else u % lim
                b = -(v % (lim + 1)) if sb else v % lim
                if u >= lim and gcfg is cfg:
                    pass
            else:
                a, b = u, v
        yield 'dr', (cfg.wrap(a), cfg.wrap(b))
        if not cfg.signed and rng.random() < 0.15:
            dg = rng.choice((0, 1, 2, cfg.B - 1, cfg.B >> 1, rng.randrange(cfg.B), rng.randrange(cfg.B)))
            yield 'dd', (cfg.wrap(a), dg)


def model(cfg, ctx, group, args):
    exp = {}
    cls = set()
    if group == 'dd':
        a, d = args
        if d == 0:
            exp['div_digit'] = PANIC
            exp['rem_digit'] = PANIC
            cls.add('digit divisor zero')
        else:
            exp['div_digit'] = a // d
            exp['rem_digit'] = a % d
            cls.add('digit-operand division' if a >= cfg.B else 'plain:digit-operand, single digit dividend')
        return exp, cls
    a, b = args
    names_all = ['div', 'rem', 'checked_div', 'checked_rem', 'checked_div_euclid', 'checked_rem_euclid', 'wrapping_div', 'wrapping_rem',
                 'wrapping_div_euclid', 'wrapping_rem_euclid', 'overflowing_div', 'overflowing_rem', 'overflowing_div_euclid',
                 'overflowing_rem_euclid', 'saturating_div', 'div_euclid', 'rem_euclid', 'strict_div', 'strict_rem', 'strict_div_euclid',
                 'strict_rem_euclid', 'div_floor', 'div_ceil', 'next_multiple_of', 'checked_next_multiple_of']
    if b == 0:
        for nm in names_all:
            exp[nm] = None if nm.startswith('checked_') else PANIC
        cls.add('zero divisor')
        return exp, cls
    if cfg.signed and a == cfg.min and b == -1:
        cls.add('MIN / -1')
        exp.update({'div': PANIC, 'rem': PANIC, 'checked_div': None, 'checked_rem': None, 'checked_div_euclid': None,
                    'checked_rem_euclid': None, 'wrapping_div': cfg.min, 'wrapping_rem': 0, 'wrapping_div_euclid': cfg.min,
                    'wrapping_rem_euclid': 0, 'overflowing_div': (cfg.min, True), 'overflowing_rem': (0, True),
                    'overflowing_div_euclid': (cfg.min, True), 'overflowing_rem_euclid': (0, True), 'saturating_div': cfg.max,
                    'strict_div': PANIC, 'strict_rem': PANIC, 'strict_div_euclid': PANIC, 'strict_rem_euclid': PANIC,
                    # not stated by the property for this input:
                    'div_euclid': ANY, 'rem_euclid': ANY, 'div_floor': ANY, 'div_ceil': ANY,
                    # MIN is a multiple of -1: the nearest multiple at or beyond self is self
                    'next_multiple_of': cfg.min, 'checked_next_multiple_of': Some(cfg.min)})
        return exp, cls
    # truncation
    q = abs(a) // abs(b)
    if (a < 0) != (b < 0):
        q = -q
    r = a - q * b
    assert abs(r) < abs(b) and (r == 0 or (r < 0) == (a < 0))
    re_ = a % abs(b)
    qe = (a - re_) // b
    assert 0 <= re_ < abs(b) and qe * b + re_ == a
    for nm, v in (('div', q), ('rem', r), ('div_euclid', qe), ('rem_euclid', re_)):
        exp[nm] = v
        exp['checked_' + nm] = Some(v)
        exp['wrapping_' + nm] = v
        exp['overflowing_' + nm] = (v, False)
        exp['strict_' + nm] = v
    exp['saturating_div'] = q
    fl = a // b
    ce = -((-a) // b)
    exp['div_floor'] = fl
    exp['div_ceil'] = ce if cfg.fits(ce) else ANY
    # nearest multiple of b at or beyond a in the direction of b's sign
    if b > 0:
        nm_ = ce * b
    else:
        nm_ = fl * b  # largest multiple <= a  (floor(a/b) * b with b < 0 ... see below)
        # for b < 0: multiples of b at or below a: the largest is -ceil(-a / -b)... compute directly
        k = (-a + (-b) - 1) // (-b)  # ceil(-a / |b|)
        nm_ = -(k * (-b))
    assert nm_ % b == 0 and ((b > 0 and a <= nm_ < a + b) or (b < 0 and a + b < nm_ <= a))
    if cfg.fits(nm_):
        exp['next_multiple_of'] = nm_
        exp['checked_next_multiple_of'] = Some(nm_)
    else:
        cls.add('next_multiple_of not representable')
        exp['checked_next_multiple_of'] = None
        exp['next_multiple_of'] = PANIC if ctx['dbg'] else cfg.wrap(nm_)
    # classification
    d = '@d%d' % cfg.dbits
    ua, ub = abs(a), abs(b)
    if ua < ub:
        cls.add('plain:dividend<divisor')
    elif ua == ub:
        cls.add('plain:equal magnitudes')
    elif ub < cfg.B:
        cls.add('single-digit divisor path' + d if ua >= cfg.B else 'plain:both single digit')
    else:
        kc, m, n = knuth_classes(cfg.B, cfg.dbits, ua, ub)
        cls.add('knuth' + d)
        for c in kc:
            cls.add(c + d)
        if cfg.n <= 5:
            cls.add('cell m=%d n=%d' % (m, n) + d)
    if cfg.signed:
        if r != 0:
            cls.add('signs %s/%s rem!=0' % ('-' if a < 0 else '+', '-' if b < 0 else '+'))
            if qe != q:
                cls.add('euclid adjustment taken')
            if fl != q:
                cls.add('floor adjustment taken')
            if ce != q:
                cls.add('ceil adjustment taken')
        elif a < 0 or b < 0:
            cls.add('negative operand, exact division')
        if a == cfg.min or b == cfg.min:
            cls.add('operand MIN')
    elif r != 0:
        cls.add('plain:unsigned rem!=0')
    if not cls:
        cls.add('plain')
    return exp, cls


REQUIRED = ['zero divisor', 'MIN / -1', 'operand MIN', 'euclid adjustment taken', 'floor adjustment taken', 'ceil adjustment taken',
            'signs -/- rem!=0', 'signs +/- rem!=0', 'signs -/+ rem!=0', 'next_multiple_of not representable', 'digit-operand division'] + \
    [c + '@d%d' % d for d in (8, 16, 32, 64) for c in ('knuth', 'add-back', 'qhat corrected once', 'qhat corrected twice',
                                                       'qhat=B-1 branch', 'shift=0', 'shift=D-1', 'single-digit divisor path')]


def floors(st, tier):
    return ['class %r never observed' % c for c in REQUIRED if st['classes'].get(c, 0) == 0]


extra_passes = thorough_aux('props.c03', (), exh=True)
