//! C09 driver: integer casts (As / CastFrom).
//! group "cast": args v (pattern of the source cfg) -> casts into every type of the sub-list and every primitive
//! group "fp":   args d (number) b (bool 0/1) c (char scalar) -> casts from every primitive that can hold d into the cfg
use bnum_verif_harness::*;
use bnum::cast::{As, CastFrom};

macro_rules! targets {
    ($Src:ty ; $(($n:ident, $T:ty)),*) => {
        group_fn! { to_bnum; args; { let a: $Src = args.v(0); };
            $( concat!("to_", stringify!($n)) => <$T as CastFrom<$Src>>::cast_from(a), )*
            $( concat!("as_", stringify!($n)) => As::as_::<$T>(a), )*
        }
        group_fn! { to_prim; args; { let a: $Src = args.v(0); };
            "to_u8" => As::as_::<u8>(a), "to_u16" => As::as_::<u16>(a), "to_u32" => As::as_::<u32>(a), "to_u64" => As::as_::<u64>(a),
            "to_u128" => As::as_::<u128>(a), "to_usize" => As::as_::<usize>(a),
            "to_i8" => As::as_::<i8>(a), "to_i16" => As::as_::<i16>(a), "to_i32" => As::as_::<i32>(a), "to_i64" => As::as_::<i64>(a),
            "to_i128" => As::as_::<i128>(a), "to_isize" => As::as_::<isize>(a),
        }
        group_fn! { from_prim; args; { let si: Option<i128> = match &args.0[0] { Arg::D(i, _) => *i, _ => None };
                let su: Option<u128> = match &args.0[0] { Arg::D(_, u) => *u, _ => None };
                let b = args.bool(1); let c = char::from_u32(args.u32(2)).unwrap();
                macro_rules! val { ($X:ty) => {{
                    let r: Option<$X> = match (si, su) {
                        (Some(i), _) => <$X>::try_from(i).ok(),
                        (None, Some(u)) => <$X>::try_from(u).ok(),
                        _ => None };
                    r }} }
            };
            "from_u8" => val!(u8).map(|x| <$Src>::cast_from(x)), "from_u16" => val!(u16).map(|x| <$Src>::cast_from(x)),
            "from_u32" => val!(u32).map(|x| <$Src>::cast_from(x)), "from_u64" => val!(u64).map(|x| <$Src>::cast_from(x)),
            "from_u128" => val!(u128).map(|x| <$Src>::cast_from(x)), "from_usize" => val!(usize).map(|x| <$Src>::cast_from(x)),
            "from_i8" => val!(i8).map(|x| <$Src>::cast_from(x)), "from_i16" => val!(i16).map(|x| <$Src>::cast_from(x)),
            "from_i32" => val!(i32).map(|x| <$Src>::cast_from(x)), "from_i64" => val!(i64).map(|x| <$Src>::cast_from(x)),
            "from_i128" => val!(i128).map(|x| <$Src>::cast_from(x)), "from_isize" => val!(isize).map(|x| <$Src>::cast_from(x)),
            "as_from_u64" => val!(u64).map(|x| As::as_::<$Src>(x)), "as_from_i64" => val!(i64).map(|x| As::as_::<$Src>(x)),
            "as_from_i8" => val!(i8).map(|x| As::as_::<$Src>(x)), "as_from_u128" => val!(u128).map(|x| As::as_::<$Src>(x)),
            "calib_as_u8" => si.map(|x| x as u8), "calib_as_u16" => si.map(|x| x as u16), "calib_as_u32" => si.map(|x| x as u32),
            "calib_as_u64" => si.map(|x| x as u64), "calib_as_u128" => si.map(|x| x as u128),
            "calib_as_i8" => si.map(|x| x as i8), "calib_as_i16" => si.map(|x| x as i16), "calib_as_i32" => si.map(|x| x as i32),
            "calib_as_i64" => si.map(|x| x as i64), "calib_u128_as_i128" => su.map(|x| x as i128), "calib_u128_as_i64" => su.map(|x| x as i64),
            "calib_u128_as_u8" => su.map(|x| x as u8),
            "from_bool" => <$Src>::cast_from(b),
            "from_char" => <$Src>::cast_from(c),
        }
    };
}

macro_rules! sources {
    ($(($n:ident, $T:ty)),*) => {
        $(
            #[allow(non_snake_case, unused_imports)]
            pub mod $n {
                use super::*;
                for_cast_types!(targets; $T);
                pub fn run(g: &str, args: &Args, out: &mut String) -> bool {
                    match g {
                        "cast" => { to_bnum(args, out); to_prim(args, out); true }
                        "fp" => { from_prim(args, out); true }
                        _ => false }
                }
            }
        )*
        pub fn run_bnum(cfg: &str, g: &str, args: &Args, out: &mut String) -> bool {
            match cfg { $( stringify!($n) => $n::run(g, args, out), )* _ => false }
        }
    };
    (; $($rest:tt)*) => { sources!($($rest)*); };
}
for_cast_types!(sources;);

// bit-pattern reinterpretation, on the full configuration table
macro_rules! body_u {
    ($kind:tt, $T:ty, $U:ty, $S:ty $(, $rest:tt)*) => {
        group_fn! { re; args; { let a: $T = args.v(0); };
            "cast_signed" => a.cast_signed(),
        }
        pub fn run(g: &str, args: &Args, out: &mut String) -> bool {
            match g { "re" => { re(args, out); true } _ => false }
        }
    };
}
macro_rules! body_i {
    (bnum, $T:ty, $U:ty, $S:ty $(, $rest:tt)*) => {
        group_fn! { re; args; { let a: $T = args.v(0); let u: $U = args.v(0); };
            "cast_unsigned" => a.cast_unsigned(),
            "to_bits" => a.to_bits(),
            "from_bits" => <$T>::from_bits(u),
            "as_bits" => *a.as_bits(),
            "as_bits_mut" => { let mut x = <$T>::ZERO; *x.as_bits_mut() = u; x },
        }
        pub fn run(g: &str, args: &Args, out: &mut String) -> bool {
            match g { "re" => { re(args, out); true } _ => false }
        }
    };
    (prim, $T:ty, $U:ty, $S:ty $(, $rest:tt)*) => {
        group_fn! { re; args; { let a: $T = args.v(0); };
            "cast_unsigned" => a.cast_unsigned(),
        }
        pub fn run(g: &str, args: &Args, out: &mut String) -> bool {
            match g { "re" => { re(args, out); true } _ => false }
        }
    };
}
mod re_mods {
    use super::*;
    for_cfgs!(gen_mods; run_re, bnum, body_u, body_i);
    for_prims!(gen_mods; run_re_prim, prim, body_u, body_i);
}

fn run(cfg: &str, g: &str, args: &Args, out: &mut String) -> bool {
    if g == "re" {
        return re_mods::run_re(cfg, g, args, out) || re_mods::run_re_prim(cfg, g, args, out);
    }
    run_bnum(cfg, g, args, out)
}

fn main() {
    main_loop("C09", run);
}
