//! C02 driver: multiplication. group "mul": args a:T b:T c:T(carry word)
use bnum_verif_harness::*;

macro_rules! body_u {
    (bnum, $T:ty, $U:ty, $S:ty $(, $rest:tt)*) => {
        body_u!(@common $T, $U, $S);
        group_fn! { extra; args; { let a: $T = args.v(0); let b: $T = args.v(1); let c: $T = args.v(2); };
            "widening_mul" => a.widening_mul(b),
        }
        pub fn run(g: &str, args: &Args, out: &mut String) -> bool {
            match g { "mul" => { common(args, out); extra(args, out); true } _ => false }
        }
    };
    (prim, $T:ty, $U:ty, $S:ty $(, $rest:tt)*) => {
        body_u!(@common $T, $U, $S);
        pub fn run(g: &str, args: &Args, out: &mut String) -> bool {
            match g { "mul" => { common(args, out); true } _ => false }
        }
    };
    (@common $T:ty, $U:ty, $S:ty) => {
        group_fn! { common; args; { let a: $T = args.v(0); let b: $T = args.v(1); let c: $T = args.v(2); };
            "overflowing_mul" => a.overflowing_mul(b),
            "checked_mul" => a.checked_mul(b),
            "wrapping_mul" => a.wrapping_mul(b),
            "saturating_mul" => a.saturating_mul(b),
            "strict_mul" => a.strict_mul(b),
            "unchecked_mul" => match a.checked_mul(b) { Some(_) => Some(unsafe { a.unchecked_mul(b) }), None => None },
            "carrying_mul" => a.carrying_mul(b, c),
        }
    };
}

macro_rules! body_i {
    ($kind:tt, $T:ty, $U:ty, $S:ty $(, $rest:tt)*) => {
        group_fn! { common; args; { let a: $T = args.v(0); let b: $T = args.v(1); };
            "overflowing_mul" => a.overflowing_mul(b),
            "checked_mul" => a.checked_mul(b),
            "wrapping_mul" => a.wrapping_mul(b),
            "saturating_mul" => a.saturating_mul(b),
            "strict_mul" => a.strict_mul(b),
            "unchecked_mul" => match a.checked_mul(b) { Some(_) => Some(unsafe { a.unchecked_mul(b) }), None => None },
        }
        pub fn run(g: &str, args: &Args, out: &mut String) -> bool {
            match g { "mul" => { common(args, out); true } _ => false }
        }
    };
}

for_cfgs!(gen_mods; run_bnum, bnum, body_u, body_i);
for_prims!(gen_mods; run_prim, prim, body_u, body_i);

fn run(cfg: &str, g: &str, args: &Args, out: &mut String) -> bool {
    run_bnum(cfg, g, args, out) || run_prim(cfg, g, args, out)
}

fn main() {
    main_loop("C02", run);
}
