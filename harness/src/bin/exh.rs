//! Exhaustive sweeps over ALL operand pairs of the 16-bit (and 8-bit) configurations against the Rust primitive of the same width,
//! executed in-process (the primitive is the oracle; only total, non-panicking forms are used so no catch_unwind is needed per call).
//! request: <cfg> <group c01|c02|c03|c05|c06|c07|c08> d<a_lo> d<a_hi>   (a = first operand pattern, b sweeps the whole type)
//!      or: <cfg> <group> d<seed> d<count> d1                          (bulk mode for the 32/64/128-bit configurations: <count> operand
//!                                                                       pairs from a structured pseudo-random generator seeded with <seed>)
//! response: exh=(evaluations, mismatches, first mismatch as text)
use bnum_verif_harness::*;

/// xorshift64* PRNG and a structured operand generator for the bulk mode (the primitive is the oracle, so the generator may live here)
pub struct Rng(pub u64);
impl Rng {
    pub fn next(&mut self) -> u64 {
        let mut x = self.0;
        x ^= x >> 12; x ^= x << 25; x ^= x >> 27;
        self.0 = x;
        x.wrapping_mul(0x2545F4914F6CDD1D)
    }
    pub fn u128(&mut self) -> u128 { ((self.next() as u128) << 64) | self.next() as u128 }
    pub fn val(&mut self, bits: u32) -> u128 {
        let mask = if bits >= 128 { u128::MAX } else { (1u128 << bits) - 1 };
        let k = (self.next() % bits as u64) as u32;
        let v = match self.next() % 10 {
            0 | 1 => self.u128(),
            2 => { // every byte from {0, 0xff, random}, in runs
                let mut v = 0u128; let mut mood = self.next() % 3;
                for i in 0..16 { if self.next() % 3 == 0 { mood = self.next() % 3; }
                    let b = match mood { 0 => 0u128, 1 => 0xff, _ => (self.next() & 0xff) as u128 }; v |= b << (8 * i); }
                v }
            3 => (1u128 << k).wrapping_add((self.next() % 3) as u128).wrapping_sub(1),
            4 => (self.u128() & mask) >> k,
            5 => mask >> k,
            6 => !(1u128 << k),
            7 => self.next() as u128 % 17,
            8 => (mask >> 1).wrapping_add((self.next() % 4) as u128).wrapping_sub(1),   // around MAX/MIN of the signed type
            _ => 0u128.wrapping_sub(self.next() as u128 % 17),
        };
        v & mask
    }
    pub fn pair(&mut self, bits: u32) -> (u128, u128) {
        let mask = if bits >= 128 { u128::MAX } else { (1u128 << bits) - 1 };
        let a = self.val(bits);
        let k = (self.next() % bits as u64) as u32;
        let b = match self.next() % 12 {
            0 => a, 1 => a.wrapping_add(1), 2 => a.wrapping_sub(1), 3 => !a, 4 => 0u128.wrapping_sub(a), 5 => a >> k, 6 => mask.wrapping_sub(a),
            _ => self.val(bits),
        };
        (a, b & mask)
    }
}

#[derive(Clone, Copy)]
pub struct F32(pub f32);
#[derive(Clone, Copy)]
pub struct F64(pub f64);
impl Same<F32> for F32 { fn same(&self, r: &F32) -> bool { self.0.to_bits() == r.0.to_bits() } }
impl Same<F64> for F64 { fn same(&self, r: &F64) -> bool { self.0.to_bits() == r.0.to_bits() } }
impl Out for F32 { fn o(&self, s: &mut String) { Out::o(&self.0, s) } }
impl Out for F64 { fn o(&self, s: &mut String) { Out::o(&self.0, s) } }

macro_rules! chk {
    ($ev:ident, $bad:ident, $first:ident, $name:literal, $a:expr, $b:expr, $x:expr, $y:expr) => {{
        $ev += 1;
        let x = $x;
        let y = $y;
        if !Same::same(&x, &y) {
            $bad += 1;
            if $first.is_empty() {
                let mut s = String::new();
                Out::o(&x, &mut s);
                let mut t = String::new();
                Out::o(&y, &mut t);
                $first = format!("{} a={:#x} b={:#x} bnum={} primitive={}", $name, $a, $b, s, t);
            }
        }
    }};
}

macro_rules! sweep_u {
    ($fname:ident, $T:ty, $S:ty, $P:ty, $PS:ty) => {
        pub fn $fname(group: &str, lo: u128, hi: u128, bulk: bool) -> (u64, u64, String) {
            let (mut ev, mut bad, mut first) = (0u64, 0u64, String::new());
            let bits: u32 = 8 * <$P as Pat>::PAT_BYTES as u32;
            let span: u128 = if bits >= 64 { u128::MAX } else { 1u128 << bits };
            if group == "c14f" {
                // every f32 bit pattern in [lo, hi): the float itself and the same value widened to f64
                for p in lo..hi {
                    let x = f32::from_bits(p as u32);
                    let y = x as f64;
                    chk!(ev, bad, first, "from_f32", p, 0, bnum::cast::As::as_::<$T>(x), x as $P);
                    chk!(ev, bad, first, "from_f64(widened f32)", p, 0, bnum::cast::As::as_::<$T>(y), y as $P);
                    // a double with the same leading bits and a non-trivial tail
                    let z = f64::from_bits(((p as u64) << 32) | (p as u64).wrapping_mul(0x9E3779B9) & 0xffff_ffff);
                    chk!(ev, bad, first, "from_f64", p, 1, bnum::cast::As::as_::<$T>(z), z as $P);
                }
                return (ev, bad, first);
            }
            let mut rng = Rng((lo as u64) | 1);
            let outer = if bulk { 0..hi } else { lo..hi };
            for it in outer {
                let bmax: u128 = if bulk || group == "c14" { 1 } else if group == "c05" { 2 * bits as u128 + 2 } else if group == "c08" { span.min(4096) } else { span };
                for bj in 0..bmax {
                    let (ai, bi): (u128, u128) = if bulk {
                        let (x, y) = rng.pair(bits);
                        (x, if group == "c05" { y % (2 * bits as u128 + 2) } else { y })
                    } else { (it, bj) };
                    let pa = ai as $P;
                    let a = <$T as Pat>::from_low_u128(ai);
                    let pb = bi as $P;
                    let b = <$T as Pat>::from_low_u128(bi);
                    let pbs = pb as $PS;
                    let bs = <$S as Pat>::from_low_u128(bi);
                    match group {
                        "c01" => {
                            chk!(ev, bad, first, "overflowing_add", ai, bi, a.overflowing_add(b), pa.overflowing_add(pb));
                            chk!(ev, bad, first, "overflowing_sub", ai, bi, a.overflowing_sub(b), pa.overflowing_sub(pb));
                            chk!(ev, bad, first, "checked_add", ai, bi, a.checked_add(b), pa.checked_add(pb));
                            chk!(ev, bad, first, "checked_sub", ai, bi, a.checked_sub(b), pa.checked_sub(pb));
                            chk!(ev, bad, first, "saturating_add", ai, bi, a.saturating_add(b), pa.saturating_add(pb));
                            chk!(ev, bad, first, "saturating_sub", ai, bi, a.saturating_sub(b), pa.saturating_sub(pb));
                            chk!(ev, bad, first, "wrapping_add", ai, bi, a.wrapping_add(b), pa.wrapping_add(pb));
                            chk!(ev, bad, first, "wrapping_sub", ai, bi, a.wrapping_sub(b), pa.wrapping_sub(pb));
                            chk!(ev, bad, first, "abs_diff", ai, bi, a.abs_diff(b), pa.abs_diff(pb));
                            chk!(ev, bad, first, "midpoint", ai, bi, a.midpoint(b), pa.midpoint(pb));
                            chk!(ev, bad, first, "overflowing_add_signed", ai, bi, a.overflowing_add_signed(bs), pa.overflowing_add_signed(pbs));
                            chk!(ev, bad, first, "checked_add_signed", ai, bi, a.checked_add_signed(bs), pa.checked_add_signed(pbs));
                            chk!(ev, bad, first, "saturating_add_signed", ai, bi, a.saturating_add_signed(bs), pa.saturating_add_signed(pbs));
                            chk!(ev, bad, first, "carrying_add(1)", ai, bi, a.carrying_add(b, true), pa.carrying_add(pb, true));
                            chk!(ev, bad, first, "borrowing_sub(1)", ai, bi, a.borrowing_sub(b, true), pa.borrowing_sub(pb, true));
                        }
                        "c02" => {
                            chk!(ev, bad, first, "overflowing_mul", ai, bi, a.overflowing_mul(b), pa.overflowing_mul(pb));
                            chk!(ev, bad, first, "checked_mul", ai, bi, a.checked_mul(b), pa.checked_mul(pb));
                            chk!(ev, bad, first, "saturating_mul", ai, bi, a.saturating_mul(b), pa.saturating_mul(pb));
                            chk!(ev, bad, first, "wrapping_mul", ai, bi, a.wrapping_mul(b), pa.wrapping_mul(pb));
                            chk!(ev, bad, first, "carrying_mul(a)", ai, bi, a.carrying_mul(b, a), pa.carrying_mul(pb, pa));
                            chk!(ev, bad, first, "carrying_mul(MAX)", ai, bi, a.carrying_mul(b, <$T>::MAX), pa.carrying_mul(pb, <$P>::MAX));
                        }
                        "c03" => {
                            chk!(ev, bad, first, "checked_div", ai, bi, a.checked_div(b), pa.checked_div(pb));
                            chk!(ev, bad, first, "checked_rem", ai, bi, a.checked_rem(b), pa.checked_rem(pb));
                            chk!(ev, bad, first, "checked_div_euclid", ai, bi, a.checked_div_euclid(b), pa.checked_div_euclid(pb));
                            chk!(ev, bad, first, "checked_rem_euclid", ai, bi, a.checked_rem_euclid(b), pa.checked_rem_euclid(pb));
                            chk!(ev, bad, first, "checked_next_multiple_of", ai, bi, a.checked_next_multiple_of(b), pa.checked_next_multiple_of(pb));
                            if bi != 0 {
                                chk!(ev, bad, first, "div_ceil", ai, bi, a.div_ceil(b), pa.div_ceil(pb));
                                chk!(ev, bad, first, "overflowing_div", ai, bi, a.overflowing_div(b), pa.overflowing_div(pb));
                                chk!(ev, bad, first, "overflowing_rem", ai, bi, a.overflowing_rem(b), pa.overflowing_rem(pb));
                                chk!(ev, bad, first, "saturating_div", ai, bi, a.saturating_div(b), pa.saturating_div(pb));
                            }
                        }
                        "c05" => {
                            let s = bi as u32;
                            chk!(ev, bad, first, "checked_shl", ai, bi, a.checked_shl(s), pa.checked_shl(s));
                            chk!(ev, bad, first, "checked_shr", ai, bi, a.checked_shr(s), pa.checked_shr(s));
                            chk!(ev, bad, first, "overflowing_shl", ai, bi, a.overflowing_shl(s), pa.overflowing_shl(s));
                            chk!(ev, bad, first, "overflowing_shr", ai, bi, a.overflowing_shr(s), pa.overflowing_shr(s));
                            chk!(ev, bad, first, "unbounded_shl", ai, bi, a.unbounded_shl(s), pa.unbounded_shl(s));
                            chk!(ev, bad, first, "unbounded_shr", ai, bi, a.unbounded_shr(s), pa.unbounded_shr(s));
                            chk!(ev, bad, first, "rotate_left", ai, bi, a.rotate_left(s), pa.rotate_left(s));
                            chk!(ev, bad, first, "rotate_right", ai, bi, a.rotate_right(s), pa.rotate_right(s));
                        }
                        "c06" => {
                            chk!(ev, bad, first, "and", ai, bi, a & b, pa & pb);
                            chk!(ev, bad, first, "or", ai, bi, a | b, pa | pb);
                            chk!(ev, bad, first, "xor", ai, bi, a ^ b, pa ^ pb);
                            if bi < 4 {
                                chk!(ev, bad, first, "not", ai, bi, !a, !pa);
                                chk!(ev, bad, first, "count_ones", ai, bi, a.count_ones(), pa.count_ones());
                                chk!(ev, bad, first, "leading_zeros", ai, bi, a.leading_zeros(), pa.leading_zeros());
                                chk!(ev, bad, first, "trailing_zeros", ai, bi, a.trailing_zeros(), pa.trailing_zeros());
                                chk!(ev, bad, first, "leading_ones", ai, bi, a.leading_ones(), pa.leading_ones());
                                chk!(ev, bad, first, "trailing_ones", ai, bi, a.trailing_ones(), pa.trailing_ones());
                                chk!(ev, bad, first, "swap_bytes", ai, bi, a.swap_bytes(), pa.swap_bytes());
                                chk!(ev, bad, first, "reverse_bits", ai, bi, a.reverse_bits(), pa.reverse_bits());
                                chk!(ev, bad, first, "is_power_of_two", ai, bi, a.is_power_of_two(), pa.is_power_of_two());
                                chk!(ev, bad, first, "checked_next_power_of_two", ai, bi, a.checked_next_power_of_two(), pa.checked_next_power_of_two());
                            }
                        }
                        "c07" => {
                            chk!(ev, bad, first, "cmp", ai, bi, Ord::cmp(&a, &b), Ord::cmp(&pa, &pb));
                            chk!(ev, bad, first, "eq", ai, bi, a == b, pa == pb);
                            chk!(ev, bad, first, "lt", ai, bi, a < b, pa < pb);
                            chk!(ev, bad, first, "le", ai, bi, a <= b, pa <= pb);
                            chk!(ev, bad, first, "max", ai, bi, a.max(b), pa.max(pb));
                            chk!(ev, bad, first, "min", ai, bi, a.min(b), pa.min(pb));
                        }
                        "c18" => {
                            chk!(ev, bad, first, "Integer::gcd", ai, bi, num_integer::Integer::gcd(&a, &b), num_integer::Integer::gcd(&pa, &pb));
                            chk!(ev, bad, first, "Integer::is_even", ai, bi, num_integer::Integer::is_even(&a), num_integer::Integer::is_even(&pa));
                            if bi != 0 {
                                chk!(ev, bad, first, "Integer::div_floor", ai, bi, num_integer::Integer::div_floor(&a, &b), num_integer::Integer::div_floor(&pa, &pb));
                                chk!(ev, bad, first, "Integer::mod_floor", ai, bi, num_integer::Integer::mod_floor(&a, &b), num_integer::Integer::mod_floor(&pa, &pb));
                                chk!(ev, bad, first, "Integer::div_rem", ai, bi, num_integer::Integer::div_rem(&a, &b), num_integer::Integer::div_rem(&pa, &pb));
                                chk!(ev, bad, first, "Integer::is_multiple_of", ai, bi, num_integer::Integer::is_multiple_of(&a, &b), num_integer::Integer::is_multiple_of(&pa, &pb));
                            }
                        }
                        "c14" => {
                            chk!(ev, bad, first, "to_f32", ai, bi, F32(bnum::cast::As::as_::<f32>(a)), F32(pa as f32));
                            chk!(ev, bad, first, "to_f64", ai, bi, F64(bnum::cast::As::as_::<f64>(a)), F64(pa as f64));
                            // float -> integer from the second operand's bits (bulk mode; the dedicated c14f loop is exhaustive)
                            let x = f32::from_bits(bi as u32);
                            let y = f64::from_bits(bi as u64 ^ ((bi >> 64) as u64));
                            chk!(ev, bad, first, "from_f32", ai, bi, bnum::cast::As::as_::<$T>(x), x as $P);
                            chk!(ev, bad, first, "from_f64", ai, bi, bnum::cast::As::as_::<$T>(y), y as $P);
                        }
                        "c08" => {
                            let e = (bi & 31) as u32;
                            chk!(ev, bad, first, "overflowing_pow", ai, bi, a.overflowing_pow(e), pa.overflowing_pow(e));
                            chk!(ev, bad, first, "checked_pow", ai, bi, a.checked_pow(e), pa.checked_pow(e));
                            chk!(ev, bad, first, "saturating_pow", ai, bi, a.saturating_pow(e), pa.saturating_pow(e));
                            chk!(ev, bad, first, "checked_ilog", ai, bi, a.checked_ilog(b), pa.checked_ilog(pb));
                            if bi < 2 {
                                chk!(ev, bad, first, "checked_ilog2", ai, bi, a.checked_ilog2(), pa.checked_ilog2());
                                chk!(ev, bad, first, "checked_ilog10", ai, bi, a.checked_ilog10(), pa.checked_ilog10());
                            }
                        }
                        _ => {}
                    }
                }
            }
            (ev, bad, first)
        }
    };
}

macro_rules! sweep_i {
    ($fname:ident, $T:ty, $U:ty, $P:ty, $PU:ty) => {
        pub fn $fname(group: &str, lo: u128, hi: u128, bulk: bool) -> (u64, u64, String) {
            let (mut ev, mut bad, mut first) = (0u64, 0u64, String::new());
            let bits: u32 = 8 * <$P as Pat>::PAT_BYTES as u32;
            let span: u128 = if bits >= 64 { u128::MAX } else { 1u128 << bits };
            if group == "c14f" {
                // every f32 bit pattern in [lo, hi): the float itself and the same value widened to f64
                for p in lo..hi {
                    let x = f32::from_bits(p as u32);
                    let y = x as f64;
                    chk!(ev, bad, first, "from_f32", p, 0, bnum::cast::As::as_::<$T>(x), x as $P);
                    chk!(ev, bad, first, "from_f64(widened f32)", p, 0, bnum::cast::As::as_::<$T>(y), y as $P);
                    // a double with the same leading bits and a non-trivial tail
                    let z = f64::from_bits(((p as u64) << 32) | (p as u64).wrapping_mul(0x9E3779B9) & 0xffff_ffff);
                    chk!(ev, bad, first, "from_f64", p, 1, bnum::cast::As::as_::<$T>(z), z as $P);
                }
                return (ev, bad, first);
            }
            let mut rng = Rng((lo as u64) | 1);
            let outer = if bulk { 0..hi } else { lo..hi };
            for it in outer {
                let bmax: u128 = if bulk || group == "c14" { 1 } else if group == "c05" { 2 * bits as u128 + 2 } else if group == "c08" { span.min(4096) } else { span };
                for bj in 0..bmax {
                    let (ai, bi): (u128, u128) = if bulk {
                        let (x, y) = rng.pair(bits);
                        (x, if group == "c05" { y % (2 * bits as u128 + 2) } else { y })
                    } else { (it, bj) };
                    let pa = ai as $PU as $P;
                    let a = <$T as Pat>::from_low_u128(ai);
                    let pb = bi as $PU as $P;
                    let b = <$T as Pat>::from_low_u128(bi);
                    let pbu = bi as $PU;
                    let bu = <$U as Pat>::from_low_u128(bi);
                    match group {
                        "c01" => {
                            chk!(ev, bad, first, "overflowing_add", ai, bi, a.overflowing_add(b), pa.overflowing_add(pb));
                            chk!(ev, bad, first, "overflowing_sub", ai, bi, a.overflowing_sub(b), pa.overflowing_sub(pb));
                            chk!(ev, bad, first, "checked_add", ai, bi, a.checked_add(b), pa.checked_add(pb));
                            chk!(ev, bad, first, "checked_sub", ai, bi, a.checked_sub(b), pa.checked_sub(pb));
                            chk!(ev, bad, first, "saturating_add", ai, bi, a.saturating_add(b), pa.saturating_add(pb));
                            chk!(ev, bad, first, "saturating_sub", ai, bi, a.saturating_sub(b), pa.saturating_sub(pb));
                            chk!(ev, bad, first, "wrapping_add", ai, bi, a.wrapping_add(b), pa.wrapping_add(pb));
                            chk!(ev, bad, first, "wrapping_sub", ai, bi, a.wrapping_sub(b), pa.wrapping_sub(pb));
                            chk!(ev, bad, first, "abs_diff", ai, bi, a.abs_diff(b), pa.abs_diff(pb));
                            chk!(ev, bad, first, "midpoint", ai, bi, a.midpoint(b), pa.midpoint(pb));
                            chk!(ev, bad, first, "overflowing_add_unsigned", ai, bi, a.overflowing_add_unsigned(bu), pa.overflowing_add_unsigned(pbu));
                            chk!(ev, bad, first, "overflowing_sub_unsigned", ai, bi, a.overflowing_sub_unsigned(bu), pa.overflowing_sub_unsigned(pbu));
                            chk!(ev, bad, first, "saturating_add_unsigned", ai, bi, a.saturating_add_unsigned(bu), pa.saturating_add_unsigned(pbu));
                            chk!(ev, bad, first, "saturating_sub_unsigned", ai, bi, a.saturating_sub_unsigned(bu), pa.saturating_sub_unsigned(pbu));
                            if bi < 2 {
                                chk!(ev, bad, first, "overflowing_neg", ai, bi, a.overflowing_neg(), pa.overflowing_neg());
                                chk!(ev, bad, first, "overflowing_abs", ai, bi, a.overflowing_abs(), pa.overflowing_abs());
                                chk!(ev, bad, first, "saturating_neg", ai, bi, a.saturating_neg(), pa.saturating_neg());
                                chk!(ev, bad, first, "saturating_abs", ai, bi, a.saturating_abs(), pa.saturating_abs());
                                chk!(ev, bad, first, "unsigned_abs", ai, bi, a.unsigned_abs(), pa.unsigned_abs());
                            }
                        }
                        "c02" => {
                            chk!(ev, bad, first, "overflowing_mul", ai, bi, a.overflowing_mul(b), pa.overflowing_mul(pb));
                            chk!(ev, bad, first, "checked_mul", ai, bi, a.checked_mul(b), pa.checked_mul(pb));
                            chk!(ev, bad, first, "saturating_mul", ai, bi, a.saturating_mul(b), pa.saturating_mul(pb));
                            chk!(ev, bad, first, "wrapping_mul", ai, bi, a.wrapping_mul(b), pa.wrapping_mul(pb));
                        }
                        "c03" => {
                            chk!(ev, bad, first, "checked_div", ai, bi, a.checked_div(b), pa.checked_div(pb));
                            chk!(ev, bad, first, "checked_rem", ai, bi, a.checked_rem(b), pa.checked_rem(pb));
                            chk!(ev, bad, first, "checked_div_euclid", ai, bi, a.checked_div_euclid(b), pa.checked_div_euclid(pb));
                            chk!(ev, bad, first, "checked_rem_euclid", ai, bi, a.checked_rem_euclid(b), pa.checked_rem_euclid(pb));
                            if bi != 0 {
                                chk!(ev, bad, first, "overflowing_div", ai, bi, a.overflowing_div(b), pa.overflowing_div(pb));
                                chk!(ev, bad, first, "overflowing_rem", ai, bi, a.overflowing_rem(b), pa.overflowing_rem(pb));
                                chk!(ev, bad, first, "overflowing_div_euclid", ai, bi, a.overflowing_div_euclid(b), pa.overflowing_div_euclid(pb));
                                chk!(ev, bad, first, "overflowing_rem_euclid", ai, bi, a.overflowing_rem_euclid(b), pa.overflowing_rem_euclid(pb));
                                chk!(ev, bad, first, "saturating_div", ai, bi, a.saturating_div(b), pa.saturating_div(pb));
                                chk!(ev, bad, first, "wrapping_div", ai, bi, a.wrapping_div(b), pa.wrapping_div(pb));
                                chk!(ev, bad, first, "wrapping_rem", ai, bi, a.wrapping_rem(b), pa.wrapping_rem(pb));
                            }
                        }
                        "c05" => {
                            let s = bi as u32;
                            chk!(ev, bad, first, "checked_shl", ai, bi, a.checked_shl(s), pa.checked_shl(s));
                            chk!(ev, bad, first, "checked_shr", ai, bi, a.checked_shr(s), pa.checked_shr(s));
                            chk!(ev, bad, first, "overflowing_shl", ai, bi, a.overflowing_shl(s), pa.overflowing_shl(s));
                            chk!(ev, bad, first, "overflowing_shr", ai, bi, a.overflowing_shr(s), pa.overflowing_shr(s));
                            chk!(ev, bad, first, "unbounded_shl", ai, bi, a.unbounded_shl(s), pa.unbounded_shl(s));
                            chk!(ev, bad, first, "unbounded_shr", ai, bi, a.unbounded_shr(s), pa.unbounded_shr(s));
                            chk!(ev, bad, first, "rotate_left", ai, bi, a.rotate_left(s), pa.rotate_left(s));
                            chk!(ev, bad, first, "rotate_right", ai, bi, a.rotate_right(s), pa.rotate_right(s));
                        }
                        "c06" => {
                            chk!(ev, bad, first, "and", ai, bi, a & b, pa & pb);
                            chk!(ev, bad, first, "or", ai, bi, a | b, pa | pb);
                            chk!(ev, bad, first, "xor", ai, bi, a ^ b, pa ^ pb);
                            if bi < 4 {
                                chk!(ev, bad, first, "not", ai, bi, !a, !pa);
                                chk!(ev, bad, first, "count_ones", ai, bi, a.count_ones(), pa.count_ones());
                                chk!(ev, bad, first, "leading_zeros", ai, bi, a.leading_zeros(), pa.leading_zeros());
                                chk!(ev, bad, first, "trailing_zeros", ai, bi, a.trailing_zeros(), pa.trailing_zeros());
                                chk!(ev, bad, first, "leading_ones", ai, bi, a.leading_ones(), pa.leading_ones());
                                chk!(ev, bad, first, "trailing_ones", ai, bi, a.trailing_ones(), pa.trailing_ones());
                                chk!(ev, bad, first, "swap_bytes", ai, bi, a.swap_bytes(), pa.swap_bytes());
                                chk!(ev, bad, first, "reverse_bits", ai, bi, a.reverse_bits(), pa.reverse_bits());
                            }
                        }
                        "c07" => {
                            chk!(ev, bad, first, "cmp", ai, bi, Ord::cmp(&a, &b), Ord::cmp(&pa, &pb));
                            chk!(ev, bad, first, "eq", ai, bi, a == b, pa == pb);
                            chk!(ev, bad, first, "lt", ai, bi, a < b, pa < pb);
                            chk!(ev, bad, first, "le", ai, bi, a <= b, pa <= pb);
                            chk!(ev, bad, first, "max", ai, bi, a.max(b), pa.max(pb));
                            chk!(ev, bad, first, "min", ai, bi, a.min(b), pa.min(pb));
                            if bi < 2 {
                                chk!(ev, bad, first, "signum", ai, bi, a.signum(), pa.signum());
                                chk!(ev, bad, first, "is_positive", ai, bi, a.is_positive(), pa.is_positive());
                                chk!(ev, bad, first, "is_negative", ai, bi, a.is_negative(), pa.is_negative());
                            }
                        }
                        "c18" => {
                            let min_involved = pa == <$P>::MIN || pb == <$P>::MIN;
                            if !min_involved {
                                chk!(ev, bad, first, "Integer::gcd", ai, bi, num_integer::Integer::gcd(&a, &b), num_integer::Integer::gcd(&pa, &pb));
                            }
                            chk!(ev, bad, first, "Integer::is_odd", ai, bi, num_integer::Integer::is_odd(&a), num_integer::Integer::is_odd(&pa));
                            if bi != 0 && !(pa == <$P>::MIN && pb == -1) {
                                chk!(ev, bad, first, "Integer::div_floor", ai, bi, num_integer::Integer::div_floor(&a, &b), num_integer::Integer::div_floor(&pa, &pb));
                                chk!(ev, bad, first, "Integer::mod_floor", ai, bi, num_integer::Integer::mod_floor(&a, &b), num_integer::Integer::mod_floor(&pa, &pb));
                                chk!(ev, bad, first, "Integer::div_rem", ai, bi, num_integer::Integer::div_rem(&a, &b), num_integer::Integer::div_rem(&pa, &pb));
                                chk!(ev, bad, first, "Integer::div_mod_floor", ai, bi, num_integer::Integer::div_mod_floor(&a, &b), num_integer::Integer::div_mod_floor(&pa, &pb));
                                chk!(ev, bad, first, "Integer::is_multiple_of", ai, bi, num_integer::Integer::is_multiple_of(&a, &b), num_integer::Integer::is_multiple_of(&pa, &pb));
                            }
                        }
                        "c14" => {
                            chk!(ev, bad, first, "to_f32", ai, bi, F32(bnum::cast::As::as_::<f32>(a)), F32(pa as f32));
                            chk!(ev, bad, first, "to_f64", ai, bi, F64(bnum::cast::As::as_::<f64>(a)), F64(pa as f64));
                            // float -> integer from the second operand's bits (bulk mode; the dedicated c14f loop is exhaustive)
                            let x = f32::from_bits(bi as u32);
                            let y = f64::from_bits(bi as u64 ^ ((bi >> 64) as u64));
                            chk!(ev, bad, first, "from_f32", ai, bi, bnum::cast::As::as_::<$T>(x), x as $P);
                            chk!(ev, bad, first, "from_f64", ai, bi, bnum::cast::As::as_::<$T>(y), y as $P);
                        }
                        "c08" => {
                            let e = (bi & 31) as u32;
                            chk!(ev, bad, first, "overflowing_pow", ai, bi, a.overflowing_pow(e), pa.overflowing_pow(e));
                            chk!(ev, bad, first, "checked_pow", ai, bi, a.checked_pow(e), pa.checked_pow(e));
                            chk!(ev, bad, first, "saturating_pow", ai, bi, a.saturating_pow(e), pa.saturating_pow(e));
                            chk!(ev, bad, first, "checked_ilog", ai, bi, a.checked_ilog(b), pa.checked_ilog(pb));
                        }
                        _ => {}
                    }
                }
            }
            (ev, bad, first)
        }
    };
}

sweep_u!(u8x1, BUintD8<1>, BIntD8<1>, u8, i8);
sweep_u!(u8x2, BUintD8<2>, BIntD8<2>, u16, i16);
sweep_u!(u16x1, BUintD16<1>, BIntD16<1>, u16, i16);
sweep_i!(i8x1, BIntD8<1>, BUintD8<1>, i8, u8);
sweep_i!(i8x2, BIntD8<2>, BUintD8<2>, i16, u16);
sweep_i!(i16x1, BIntD16<1>, BUintD16<1>, i16, u16);
sweep_u!(u8x4, BUintD8<4>, BIntD8<4>, u32, i32);
sweep_u!(u16x2, BUintD16<2>, BIntD16<2>, u32, i32);
sweep_u!(u32x1, BUintD32<1>, BIntD32<1>, u32, i32);
sweep_u!(u8x8, BUintD8<8>, BIntD8<8>, u64, i64);
sweep_u!(u16x4, BUintD16<4>, BIntD16<4>, u64, i64);
sweep_u!(u32x2, BUintD32<2>, BIntD32<2>, u64, i64);
sweep_u!(u64x1, BUint<1>, BInt<1>, u64, i64);
sweep_u!(u8x16, BUintD8<16>, BIntD8<16>, u128, i128);
sweep_u!(u16x8, BUintD16<8>, BIntD16<8>, u128, i128);
sweep_u!(u32x4, BUintD32<4>, BIntD32<4>, u128, i128);
sweep_u!(u64x2, BUint<2>, BInt<2>, u128, i128);
sweep_i!(i8x4, BIntD8<4>, BUintD8<4>, i32, u32);
sweep_i!(i16x2, BIntD16<2>, BUintD16<2>, i32, u32);
sweep_i!(i32x1, BIntD32<1>, BUintD32<1>, i32, u32);
sweep_i!(i8x8, BIntD8<8>, BUintD8<8>, i64, u64);
sweep_i!(i16x4, BIntD16<4>, BUintD16<4>, i64, u64);
sweep_i!(i32x2, BIntD32<2>, BUintD32<2>, i64, u64);
sweep_i!(i64x1, BInt<1>, BUint<1>, i64, u64);
sweep_i!(i8x16, BIntD8<16>, BUintD8<16>, i128, u128);
sweep_i!(i16x8, BIntD16<8>, BUintD16<8>, i128, u128);
sweep_i!(i32x4, BIntD32<4>, BUintD32<4>, i128, u128);
sweep_i!(i64x2, BInt<2>, BUint<2>, i128, u128);

fn run(cfg: &str, g: &str, args: &Args, out: &mut String) -> bool {
    if cfg.starts_with('p') {
        return false;
    }
    let (lo, hi) = (args.u128(0), args.u128(1));
    let bulk = args.len() >= 3 && args.u128(2) != 0;
    macro_rules! disp { ($($n:ident),*) => { match cfg { $( stringify!($n) => $n(g, lo, hi, bulk), )* _ => return false } } }
    let r = disp!(u8x1, u8x2, u16x1, i8x1, i8x2, i16x1, u8x4, u16x2, u32x1, u8x8, u16x4, u32x2, u64x1, u8x16, u16x8, u32x4, u64x2,
                  i8x4, i16x2, i32x1, i8x8, i16x4, i32x2, i64x1, i8x16, i16x8, i32x4, i64x2);
    out.push_str(" exh=");
    Out::o(&(r.0, r.1, r.2), out);
    true
}

fn main() {
    main_loop("EXH", run);
}
