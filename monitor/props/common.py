"""Helpers shared by the property modules."""
import core


def default_encode(sig):
    """sig: dict group -> string over x (pattern of the cfg's width), d (decimal), s (byte string)"""
    def encode(cfg, group, args):
        out = []
        for k, a in zip(sig[group], args):
            if k == 'x':
                out.append(cfg.hex(a))
            elif k == 'd':
                out.append('d%d' % int(a))
            elif k == 's':
                out.append('s' + bytes(a).hex())
            else:
                raise ValueError(k)
        return out
    return encode


def default_decode(sig):
    def decode(cfg, group, toks):
        out = []
        for k, t in zip(sig[group], toks):
            if k == 'x':
                out.append(cfg.val(int(t[1:], 16)))
            elif k == 'd':
                out.append(int(t[1:]))
            elif k == 's':
                out.append(bytes.fromhex(t[1:]))
        return tuple(out)
    return decode


def required_floors(required):
    def floors(st, tier):
        return ['class %r never observed' % c for c in required if st['classes'].get(c, 0) == 0]
    return floors


def split_range(total, part, nparts):
    lo = total * part // nparts
    hi = total * (part + 1) // nparts
    return lo, hi


def carry_count(cfg, pa, pb, cin, sub=False):
    """number of digit boundaries (including the carry out of the top digit) crossed by a
    carry (borrow) in pa + pb + cin (pa - pb - cin), computed on patterns"""
    if sub:
        r = pa - pb - cin
    else:
        r = pa + pb + cin
    bits = (r ^ pa ^ pb) & ((1 << (cfg.bits + 1)) - 1)
    m = _digit_mask(cfg)
    return bin(bits & m).count('1')


_dm = {}


def _digit_mask(cfg):
    m = _dm.get(cfg.name)
    if m is None:
        m = 0
        for i in range(1, cfg.n + 1):
            m |= 1 << (cfg.dbits * i)
        _dm[cfg.name] = m
    return m


def chain_class(cfg, k):
    if k >= cfg.n and cfg.n >= 2:
        return 'chain=full'
    if k >= 3:
        return 'chain>=3'
    return 'chain=%d' % k


def thorough_aux(modname, kinds, nreq=40, max_bits=512, groups=None, quick_kinds=(), exh=False):
    """returns an extra_passes(runmod, tier, seed, st, jobs) function running the module's own requests under the given aux kinds"""
    def extra_passes(runmod, tier, seed, st, jobs):
        import importlib
        import aux
        me = importlib.import_module(modname)
        cov = {}
        if exh:
            cov['exhaustive16_pass'] = aux.exhaustive16(runmod, me, None, tier, seed, st, jobs)
        use = list(kinds) if tier == 'thorough' else list(quick_kinds)
        cfgs = [c for c in me.configs(tier) if core.Cfg(c).bits <= max_bits]
        for kind in use:
            n = nreq if kind.startswith('miri') else nreq * 20
            cov[kind.replace('-', '_') + '_pass'] = aux.run_pass(runmod, me, kind, tier, seed, st, cfgs, n, jobs, groups=groups, chunk=40 if kind.startswith('miri') else 400)
        return cov
    return extra_passes
