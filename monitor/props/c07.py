"""C07 — comparison, equality and hashing agree with the numeric value."""
import core
import gen
from core import PANIC, Some
from props.common import thorough_aux, default_encode, default_decode, split_range

PROP = 'C07'
BIN = 'c07'
SIG = {'cmp': 'xxx'}
encode = default_encode(SIG)
decode = default_decode(SIG)
TASK_REQS = 4000
RULE = ('requests (a, b, c): pairs that agree on the top k digits and differ only below, differ only in the sign bit, have a zero top '
        'digit with non-zero lower digits, equal pairs, +-1 neighbours, boundaries; clamp triples with lo <= hi (lo > hi is executed but not judged); all 2^16 '
        'pairs at 8 bits. Hash checked through a fixed FNV hasher on the same value reached by six different routes. Non-trivial: '
        'operands differ first at a digit below the top one, differ only in sign, or are equal; distinct = distinct request lines')


def configs(tier):
    return core.cfg_names(full=(tier == 'thorough'))


def budget(cfg, tier):
    base = 4000 if tier == 'quick' else 40000
    if cfg.bits == 8:
        return 65536
    if cfg.n >= 1024:
        return base // 20
    if cfg.n >= 128:
        return base // 4
    return base


def requests(cfg, rng, n, tier, part, nparts, st):
    if cfg.bits == 8:
        lo, hi = split_range(65536, part, nparts)
        for i in range(lo, hi):
            yield 'cmp', (cfg.val(i & 255), cfg.val(i >> 8), cfg.val((i * 2654435761 >> 11) & 255))
        st['exhaustive'].append('%s: all 2^16 (a, b) pairs' % cfg.name)
        return
    D, N = cfg.dbits, cfg.n
    for _ in range(n):
        r = rng.random()
        a = gen.value(cfg, rng)
        if r < 0.30:
            # share the top k digits, differ somewhere below
            k = rng.randrange(0, N + 1)
            lowbits = D * (N - k)
            pa = cfg.pat(a)
            if lowbits:
                low = rng.choice((rng.getrandbits(lowbits), (pa & ((1 << lowbits) - 1)) ^ (1 << rng.randrange(lowbits)), 0, (1 << lowbits) - 1))
                b = cfg.val((pa >> lowbits << lowbits) | low)
            else:
                b = a
        elif r < 0.45:
            b = gen.related(cfg, rng, a)
        elif r < 0.55:
            b = a
        elif r < 0.65:
            # zero top digit but non-zero lower digits
            a = cfg.val(cfg.pat(a) & (cfg.mask >> D)) if N > 1 else a
            b = cfg.val(cfg.pat(gen.value(cfg, rng)) & (cfg.mask >> D)) if N > 1 else gen.value(cfg, rng)
        else:
            b = gen.value(cfg, rng)
        rr = rng.random()
        if rr < 0.4:
            c = gen.value(cfg, rng)
        elif rr < 0.6:
            c = b
        elif rr < 0.8:
            c = gen.related(cfg, rng, b)
        else:
            c = a
        if rng.random() < 0.7 and b > c:
            b, c = c, b  # mostly valid clamp bounds for (self=a, lo=b, hi=c)
        yield 'cmp', (a, b, c)


def model(cfg, ctx, group, args):
    a, b, c = args
    exp = {}
    cls = set()
    o = 'L' if a < b else ('G' if a > b else 'E')
    ro = {'L': 'G', 'G': 'L', 'E': 'E'}[o]
    exp['eq'] = exp['const_eq'] = a == b
    exp['ne'] = exp['const_ne'] = a != b
    exp['lt'] = exp['const_lt'] = a < b
    exp['le'] = exp['const_le'] = a <= b
    exp['gt'] = exp['const_gt'] = a > b
    exp['ge'] = exp['const_ge'] = a >= b
    exp['cmp'] = exp['const_cmp'] = ('o', o)
    exp['cmp_rev'] = ('o', ro)
    exp['partial_cmp'] = Some(('o', o))
    exp['min'] = exp['ord_min'] = min(a, b)
    exp['max'] = exp['ord_max'] = max(a, b)
    exp['eq_self'] = True
    if b > c:
        # the property defines clamp through the order of the denoted integers, which says nothing for lo > hi (the primitives panic; bnum does too today)
        exp['clamp'] = exp['ord_clamp'] = core.ANY
        cls.add('plain:clamp with lo > hi (not judged)')
    else:
        exp['clamp'] = exp['ord_clamp'] = min(max(a, b), c)
        if a < b:
            cls.add('clamp: below lo')
        elif a > c:
            cls.add('clamp: above hi')
    if cfg.signed:
        exp['signum'] = (a > 0) - (a < 0)
        exp['is_positive'] = a > 0
        exp['is_negative'] = a < 0
        if a > 0 and cfg.pat(a) >> (cfg.bits - cfg.dbits) == 0 and cfg.n > 1:
            cls.add('positive value with zero top digit')
    for k in ('hash_a', 'hash_b', 'hash_xor_route', 'hash_add_route', 'hash_parse_route', 'hash_cast_route', 'hash_not_route'):
        exp[k] = core.ANY
    d = '@d%d' % cfg.dbits
    pa, pb = cfg.pat(a), cfg.pat(b)
    if pa == pb:
        cls.add('equal operands')
    else:
        x = pa ^ pb
        idx = (x.bit_length() - 1) // cfg.dbits
        if x == 1 << (cfg.bits - 1):
            cls.add('differ only in the top bit')
        if idx < cfg.n - 1:
            cls.add(('first difference below the top digit' if idx > 0 else 'first difference in the lowest digit') + d)
        if cfg.signed:
            cls.add('plain:signs ' + ('-' if a < 0 else '+') + ('-' if b < 0 else '+'))
            if a < 0 and b < 0 and idx < cfg.n - 1:
                cls.add('both negative, decided below the top digit' + d)

    def relations(seen):
        out = []
        h = seen.get('hash_a')
        if h is not None and h != PANIC:
            for k in ('hash_xor_route', 'hash_add_route', 'hash_parse_route', 'hash_cast_route', 'hash_not_route'):
                if k in seen:
                    out.append(('hash: ' + k, seen[k] == h, '%s=%r but hash_a=%r' % (k, seen[k], h)))
            if pa == pb and 'hash_b' in seen:
                out.append(('hash: equal values hash equally', seen['hash_b'] == h, 'hash_b=%r hash_a=%r' % (seen['hash_b'], h)))
        return out
    if not cls:
        cls.add('plain')
    return exp, cls, relations


REQUIRED = ['equal operands', 'differ only in the top bit', 'clamp: below lo',
            'clamp: above hi', 'positive value with zero top digit', 'plain:signs -+', 'plain:signs +-', 'plain:signs --'] + \
    [c + '@d%d' % d for d in (8, 16, 32, 64) for c in ('first difference below the top digit', 'first difference in the lowest digit',
                                                       'both negative, decided below the top digit')]


def floors(st, tier):
    return ['class %r never observed' % c for c in REQUIRED if st['classes'].get(c, 0) == 0]


extra_passes = thorough_aux('props.c07', (), exh=True)
