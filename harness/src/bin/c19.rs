//! C19 driver: num_traits numeric conversions. group "fp": d ; group "ff": bits32 bits64 ; group "tp": a
use bnum_verif_harness::*;
use num_traits::{AsPrimitive, FromPrimitive, ToPrimitive};
use bnum::cast::As;

macro_rules! fp_list { ($f:ident, $T:ty) => { group_fn! { $f; args; {
        let si: Option<i128> = match &args.0[0] { Arg::D(i, _) => *i, _ => None };
        let su: Option<u128> = match &args.0[0] { Arg::D(_, u) => *u, _ => None };
        macro_rules! val { ($X:ty) => {{ let r: Option<$X> = match (si, su) { (Some(i), _) => <$X>::try_from(i).ok(), (None, Some(u)) => <$X>::try_from(u).ok(), _ => None }; r }} }
    };
    "from_u8" => val!(u8).map(|x| <$T as FromPrimitive>::from_u8(x)), "from_u16" => val!(u16).map(|x| <$T as FromPrimitive>::from_u16(x)),
    "from_u32" => val!(u32).map(|x| <$T as FromPrimitive>::from_u32(x)), "from_u64" => val!(u64).map(|x| <$T as FromPrimitive>::from_u64(x)),
    "from_u128" => val!(u128).map(|x| <$T as FromPrimitive>::from_u128(x)), "from_usize" => val!(usize).map(|x| <$T as FromPrimitive>::from_usize(x)),
    "from_i8" => val!(i8).map(|x| <$T as FromPrimitive>::from_i8(x)), "from_i16" => val!(i16).map(|x| <$T as FromPrimitive>::from_i16(x)),
    "from_i32" => val!(i32).map(|x| <$T as FromPrimitive>::from_i32(x)), "from_i64" => val!(i64).map(|x| <$T as FromPrimitive>::from_i64(x)),
    "from_i128" => val!(i128).map(|x| <$T as FromPrimitive>::from_i128(x)), "from_isize" => val!(isize).map(|x| <$T as FromPrimitive>::from_isize(x)),
} } }

macro_rules! ff_list { ($f:ident, $T:ty) => { group_fn! { $f; args; { let x = f32::from_bits(args.u32(0)); let y = f64::from_bits(args.u128(1) as u64); };
    "from_f32" => <$T as FromPrimitive>::from_f32(x),
    "from_f64" => <$T as FromPrimitive>::from_f64(y),
} } }

macro_rules! tp_list { ($f:ident, $T:ty) => { group_fn! { $f; args; { let a: $T = args.v(0); };
    "to_u8" => ToPrimitive::to_u8(&a), "to_u16" => ToPrimitive::to_u16(&a), "to_u32" => ToPrimitive::to_u32(&a), "to_u64" => ToPrimitive::to_u64(&a),
    "to_u128" => ToPrimitive::to_u128(&a), "to_usize" => ToPrimitive::to_usize(&a),
    "to_i8" => ToPrimitive::to_i8(&a), "to_i16" => ToPrimitive::to_i16(&a), "to_i32" => ToPrimitive::to_i32(&a), "to_i64" => ToPrimitive::to_i64(&a),
    "to_i128" => ToPrimitive::to_i128(&a), "to_isize" => ToPrimitive::to_isize(&a),
    "to_f32" => ToPrimitive::to_f32(&a), "to_f64" => ToPrimitive::to_f64(&a),
} } }

macro_rules! as_list { ($f:ident, $T:ty) => { group_fn! { $f; args; { let a: $T = args.v(0); };
    "as_u8" => (AsPrimitive::<u8>::as_(a), As::as_::<u8>(a)), "as_u16" => (AsPrimitive::<u16>::as_(a), As::as_::<u16>(a)),
    "as_u32" => (AsPrimitive::<u32>::as_(a), As::as_::<u32>(a)), "as_u64" => (AsPrimitive::<u64>::as_(a), As::as_::<u64>(a)),
    "as_u128" => (AsPrimitive::<u128>::as_(a), As::as_::<u128>(a)), "as_usize" => (AsPrimitive::<usize>::as_(a), As::as_::<usize>(a)),
    "as_i8" => (AsPrimitive::<i8>::as_(a), As::as_::<i8>(a)), "as_i16" => (AsPrimitive::<i16>::as_(a), As::as_::<i16>(a)),
    "as_i32" => (AsPrimitive::<i32>::as_(a), As::as_::<i32>(a)), "as_i64" => (AsPrimitive::<i64>::as_(a), As::as_::<i64>(a)),
    "as_i128" => (AsPrimitive::<i128>::as_(a), As::as_::<i128>(a)), "as_isize" => (AsPrimitive::<isize>::as_(a), As::as_::<isize>(a)),
    "as_f32" => (AsPrimitive::<f32>::as_(a), As::as_::<f32>(a)), "as_f64" => (AsPrimitive::<f64>::as_(a), As::as_::<f64>(a)),
    "as_bnum_ub" => (AsPrimitive::<<$T as AmtTypes>::UB>::as_(a), As::as_::<<$T as AmtTypes>::UB>(a)),
    "as_bnum_ia" => (AsPrimitive::<<$T as AmtTypes>::IA>::as_(a), As::as_::<<$T as AmtTypes>::IA>(a)),
} } }

macro_rules! asfrom_list { ($f:ident, $T:ty) => { group_fn! { $f; args; {
        let si: Option<i128> = match &args.0[0] { Arg::D(i, _) => *i, _ => None };
        let su: Option<u128> = match &args.0[0] { Arg::D(_, u) => *u, _ => None };
        macro_rules! val { ($X:ty) => {{ let r: Option<$X> = match (si, su) { (Some(i), _) => <$X>::try_from(i).ok(), (None, Some(u)) => <$X>::try_from(u).ok(), _ => None }; r }} }
    };
    "asprim_from_u8" => val!(u8).map(|x| (AsPrimitive::<$T>::as_(x), As::as_::<$T>(x))), "asprim_from_i8" => val!(i8).map(|x| (AsPrimitive::<$T>::as_(x), As::as_::<$T>(x))),
    "asprim_from_u64" => val!(u64).map(|x| (AsPrimitive::<$T>::as_(x), As::as_::<$T>(x))), "asprim_from_i64" => val!(i64).map(|x| (AsPrimitive::<$T>::as_(x), As::as_::<$T>(x))),
    "asprim_from_u128" => val!(u128).map(|x| (AsPrimitive::<$T>::as_(x), As::as_::<$T>(x))), "asprim_from_i128" => val!(i128).map(|x| (AsPrimitive::<$T>::as_(x), As::as_::<$T>(x))),
    "asprim_from_i16" => val!(i16).map(|x| (AsPrimitive::<$T>::as_(x), As::as_::<$T>(x))), "asprim_from_u32" => val!(u32).map(|x| (AsPrimitive::<$T>::as_(x), As::as_::<$T>(x))),
} } }

macro_rules! body {
    (bnum, $T:ty, $U:ty, $S:ty $(, $rest:tt)*) => {
        fp_list!(fps, $T); ff_list!(ffs, $T); tp_list!(tps, $T); as_list!(ass, $T); asfrom_list!(asf, $T);
        pub fn run(g: &str, args: &Args, out: &mut String) -> bool {
            match g { "fp" => { fps(args, out); asf(args, out); true } "ff" => { ffs(args, out); true } "tp" => { tps(args, out); ass(args, out); true } _ => false }
        }
    };
    (prim, $T:ty, $U:ty, $S:ty $(, $rest:tt)*) => {
        fp_list!(fps, $T); ff_list!(ffs, $T); tp_list!(tps, $T);
        pub fn run(g: &str, args: &Args, out: &mut String) -> bool {
            match g { "fp" => { fps(args, out); true } "ff" => { ffs(args, out); true } "tp" => { tps(args, out); true } _ => false }
        }
    };
}

for_cfgs!(gen_mods; run_bnum, bnum, body, body);
for_prims!(gen_mods; run_prim, prim, body, body);

fn run(cfg: &str, g: &str, args: &Args, out: &mut String) -> bool {
    run_bnum(cfg, g, args, out) || run_prim(cfg, g, args, out)
}

fn main() {
    main_loop("C19", run);
}
