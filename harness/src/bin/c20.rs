//! C20 driver: random generation through a scripted RNG.
//! group "wprobe": low high method s nsamples seed ; group "range": low high words(bytes) ; group "hist": low high method(0..6) ; group "std": words ; group "fill": words len
use bnum_verif_harness::*;
use rand::distributions::uniform::{SampleUniform, UniformSampler};
use rand::distributions::{Distribution, Uniform};
use rand::{Error, Rng, RngCore};

/// Replays a chosen byte stream, then falls back to a counter-based generator so that rejection loops terminate.
/// Records how many bytes were served and through how many calls.
pub struct Scripted<'a> {
    pub script: &'a [u8],
    pub pos: usize,
    pub served: usize,
    pub calls: usize,
    pub ctr: u64,
}
impl<'a> Scripted<'a> {
    pub fn new(script: &'a [u8]) -> Self { Scripted { script, pos: 0, served: 0, calls: 0, ctr: 0x9e3779b97f4a7c15 } }
    fn byte(&mut self) -> u8 {
        self.served += 1;
        if self.pos < self.script.len() { self.pos += 1; self.script[self.pos - 1] } else {
            self.ctr = self.ctr.wrapping_mul(6364136223846793005).wrapping_add(1442695040888963407);
            (self.ctr >> 33) as u8
        }
    }
}
impl<'a> RngCore for Scripted<'a> {
    fn next_u32(&mut self) -> u32 { let mut b = [0u8; 4]; self.fill_bytes(&mut b); u32::from_le_bytes(b) }
    fn next_u64(&mut self) -> u64 { let mut b = [0u8; 8]; self.fill_bytes(&mut b); u64::from_le_bytes(b) }
    fn fill_bytes(&mut self, dest: &mut [u8]) { self.calls += 1; for d in dest.iter_mut() { *d = self.byte(); } }
    fn try_fill_bytes(&mut self, dest: &mut [u8]) -> Result<(), Error> { self.fill_bytes(dest); Ok(()) }
}

fn draw<T: SampleUniform + Copy + PartialOrd>(method: usize, low: T, high: T, rng: &mut Scripted) -> T {
    match method {
        0 => rng.gen_range(low..high),
        1 => rng.gen_range(low..=high),
        2 => Uniform::new(low, high).sample(rng),
        3 => Uniform::new_inclusive(low, high).sample(rng),
        4 => <T::Sampler as UniformSampler>::sample_single(low, high, rng),
        _ => <T::Sampler as UniformSampler>::sample_single_inclusive(low, high, rng),
    }
}


/// Fixed-length little-endian naturals (byte vectors) for the word-space searches of group "wprobe"; no bnum code involved.
mod wn {
    use core::cmp::Ordering;
    pub fn cmp(a: &[u8], b: &[u8]) -> Ordering {
        for i in (0..a.len()).rev() { if a[i] != b[i] { return a[i].cmp(&b[i]); } }
        Ordering::Equal
    }
    /// a + k; None on overflow of the fixed length
    pub fn add_small(a: &[u8], k: u64) -> Option<Vec<u8>> {
        let mut r = a.to_vec();
        let mut c = k as u128;
        for x in r.iter_mut() { let t = *x as u128 + (c & 0xff); *x = t as u8; c = (c >> 8) + (t >> 8); if c == 0 { break; } }
        if c != 0 { None } else { Some(r) }
    }
    /// a - k; None on borrow
    pub fn sub_small(a: &[u8], k: u64) -> Option<Vec<u8>> {
        let mut r = a.to_vec();
        let mut kk = k as u128;
        let mut borrow = 0i32;
        for x in r.iter_mut() {
            let t = *x as i32 - (kk & 0xff) as i32 - borrow;
            kk >>= 8;
            if t < 0 { *x = (t + 256) as u8; borrow = 1; } else { *x = t as u8; borrow = 0; }
            if kk == 0 && borrow == 0 { break; }
        }
        if borrow != 0 || kk != 0 { None } else { Some(r) }
    }
    /// (a - b) mod 2^(8 len)
    pub fn sub(a: &[u8], b: &[u8]) -> Vec<u8> {
        let mut r = vec![0u8; a.len()];
        let mut borrow = 0i32;
        for i in 0..a.len() { let t = a[i] as i32 - b[i] as i32 - borrow; if t < 0 { r[i] = (t + 256) as u8; borrow = 1; } else { r[i] = t as u8; borrow = 0; } }
        r
    }
    /// lo + (hi - lo) / 2, for lo <= hi
    pub fn mid(lo: &[u8], hi: &[u8]) -> Vec<u8> {
        let mut d = sub(hi, lo);
        let mut carry = 0u8;
        for x in d.iter_mut().rev() { let n = (*x >> 1) | (carry << 7); carry = *x & 1; *x = n; }
        let mut r = lo.to_vec();
        let mut c = 0u16;
        for i in 0..r.len() { let t = r[i] as u16 + d[i] as u16 + c; r[i] = t as u8; c = t >> 8; }
        r
    }
    pub fn small(a: &[u8]) -> Option<u64> {
        if a.iter().skip(8).any(|b| *b != 0) { return None; }
        let mut v = 0u64;
        for (i, b) in a.iter().enumerate().take(8) { v |= (*b as u64) << (8 * i); }
        Some(v)
    }
}

/// Word-space probe (DESIGN C20 (iii)): for a range of `s` values on a type of any width, look for the structure "the first words that are
/// accepted and yield the k-th value form one interval [a_k, b_k], in increasing order of k, with rejected words only between the intervals".
/// 64*s + 64 pseudo-random words are drawn first; sorted, they bracket every interval end between two neighbouring samples, and each end is then
/// located exactly by binary search with the scripted RNG. The structure is finally tested on fresh sample words and on the neighbourhood of
/// every interval end. Returns (draws, (recognised, inconsistent samples, first inconsistent word), per-k records [present][a_k][b_k]).
/// No assumption about the sampling algorithm is made by the caller: if the structure is not found, nothing is judged.
fn wprobe<T: SampleUniform + Copy + PartialOrd + Pat>(low: T, high: T, method: usize, s: u64, nsamples: u64, seed: u64) -> (u64, (bool, u64, Vec<u8>), Vec<u8>) {
    use core::cmp::Ordering::*;
    let bytes = T::PAT_BYTES;
    let lowb = low.pat_to_le();
    let mut draws = 0u64;
    let mut f = |w: &[u8]| -> Option<u64> {
        draws += 1;
        let mut r = Scripted::new(w);
        let v = draw(method, low, high, &mut r);
        if r.calls == 1 && r.served == bytes { Some(wn::small(&wn::sub(&v.pat_to_le(), &lowb)).unwrap_or(u64::MAX)) } else { None }
    };
    let zero = vec![0u8; bytes];
    let top = vec![0xffu8; bytes];
    let mut x = seed | 1;
    let mut rnd_word = |x: &mut u64| -> Vec<u8> {
        let mut w = vec![0u8; bytes];
        for bch in w.iter_mut() { *x = x.wrapping_mul(6364136223846793005).wrapping_add(1442695040888963407); *bch = (*x >> 33) as u8; }
        w
    };
    let mut first: Vec<(Vec<u8>, Option<u64>)> = Vec::new();
    first.push((zero.clone(), f(&zero)));
    first.push((top.clone(), f(&top)));
    for _ in 0..(64 * s + 64) { let w = rnd_word(&mut x); let r = f(&w); first.push((w, r)); }
    first.sort_by(|p, q| wn::cmp(&p.0, &q.0));
    first.dedup_by(|p, q| p.0 == q.0);
    let mut recognised = true;
    let mut recs: Vec<(bool, Vec<u8>, Vec<u8>)> = Vec::new();
    for k in 0..s {
        let li = first.iter().position(|p| p.1 == Some(k));
        let ri = first.iter().rposition(|p| p.1 == Some(k));
        let (li, ri) = match (li, ri) { (Some(l), Some(r)) => (l, r), _ => { recs.push((false, zero.clone(), zero.clone())); recognised = false; continue; } };
        if first[li..=ri].iter().any(|p| p.1 != Some(k)) { recs.push((false, zero.clone(), zero.clone())); recognised = false; continue; }
        // a_k: first word of the run, between the previous sample (which is not in the run) and the leftmost sample of the run
        let a = if li == 0 { first[0].0.clone() } else {
            let (mut lo, mut hi) = (first[li - 1].0.clone(), first[li].0.clone());   // f(lo) != k, f(hi) == k
            loop { let m = wn::mid(&lo, &hi); if wn::cmp(&m, &lo) == Equal { break; } if f(&m) == Some(k) { hi = m; } else { lo = m; } }
            hi
        };
        let b = if ri == first.len() - 1 { first[ri].0.clone() } else {
            let (mut lo, mut hi) = (first[ri].0.clone(), first[ri + 1].0.clone());   // f(lo) == k, f(hi) != k
            loop { let m = wn::mid(&lo, &hi); if wn::cmp(&m, &lo) == Equal { break; } if f(&m) == Some(k) { lo = m; } else { hi = m; } }
            lo
        };
        recs.push((true, a, b));
    }
    // fresh sample words: pseudo-random ones, the neighbourhood of every interval end, points inside every interval
    let mut samples: Vec<Vec<u8>> = Vec::new();
    for _ in 0..nsamples { let w = rnd_word(&mut x); samples.push(w); }
    for (p, a, b) in recs.iter() { if *p {
        for d in 0..3u64 { for e in [a, b] { if let Some(w) = wn::add_small(e, d) { samples.push(w); } if let Some(w) = wn::sub_small(e, d) { samples.push(w); } } }
        samples.push(wn::mid(a, b));
        let span = wn::sub(b, a);
        let nb = span.iter().rposition(|v| *v != 0).unwrap_or(0);
        for _ in 0..8 {
            let mut q = a.clone();
            let r = rnd_word(&mut x);
            let mut off = vec![0u8; bytes];
            off[..nb].copy_from_slice(&r[..nb]);
            // a + off, off < 256^nb <= span
            let mut c = 0u16;
            for i in 0..bytes { let t = q[i] as u16 + off[i] as u16 + c; q[i] = t as u8; c = t >> 8; }
            if c == 0 && wn::cmp(&q, b) != Greater { samples.push(q); }
        }
    } }
    let mut bad = 0u64;
    let mut first_bad: Vec<u8> = Vec::new();
    for w in samples.iter() {
        let ok = match f(w) {
            Some(k) => (k as usize) < recs.len() && recs[k as usize].0 && wn::cmp(&recs[k as usize].1, w) != Greater && wn::cmp(w, &recs[k as usize].2) != Greater,
            None => !recs.iter().any(|(p, a, b)| *p && wn::cmp(a, w) != Greater && wn::cmp(w, b) != Greater),
        };
        if !ok { bad += 1; if first_bad.is_empty() { first_bad = w.clone(); } }
    }
    let mut blob = Vec::new();
    for (p, a, b) in recs.iter() { blob.push(*p as u8); blob.extend_from_slice(a); blob.extend_from_slice(b); }
    (draws, (recognised, bad, first_bad), blob)
}

macro_rules! body {
    ($kind:tt, $T:ty, $U:ty, $S:ty $(, $rest:tt)*) => {
        group_fn! { ranges; args; { let low: $T = args.v(0); let high: $T = args.v(1); let w = args.bytes(2); };
            "gen_range" => { let mut r = Scripted::new(w); let v = draw(0, low, high, &mut r); (v, r.served, r.calls) },
            "gen_range_inclusive" => { let mut r = Scripted::new(w); let v = draw(1, low, high, &mut r); (v, r.served, r.calls) },
            "uniform" => { let mut r = Scripted::new(w); let v = draw(2, low, high, &mut r); (v, r.served, r.calls) },
            "uniform_inclusive" => { let mut r = Scripted::new(w); let v = draw(3, low, high, &mut r); (v, r.served, r.calls) },
            "sample_single" => { let mut r = Scripted::new(w); let v = draw(4, low, high, &mut r); (v, r.served, r.calls) },
            "sample_single_inclusive" => { let mut r = Scripted::new(w); let v = draw(5, low, high, &mut r); (v, r.served, r.calls) },
            "uniform_reused" => { let u = Uniform::new_inclusive(low, high); let mut r = Scripted::new(w); let a = u.sample(&mut r); let b = u.sample(&mut r); (a, b) },
        }
        group_fn! { hist; args; { let low: $T = args.v(0); let high: $T = args.v(1); let method = args.usize(2); let inclusive = method % 2 == 1; };
            "hist" => {
                // every first word of the type's width; only draws that accept their first word are counted
                let bytes = <$T as Pat>::PAT_BYTES;
                assert!(bytes <= 3, "histogram enumeration is only for 8/16/24-bit types");
                let nwords: u32 = 1 << (8 * bytes);
                let mut counts = vec![0u32; nwords as usize];
                let (mut accepted, mut rejected, mut outside) = (0u64, 0u64, 0u64);
                for wd in 0..nwords {
                    let wb = wd.to_le_bytes();
                    let mut r = Scripted::new(&wb[..bytes]);
                    let v = draw(method, low, high, &mut r);
                    if r.calls == 1 && r.served == bytes {
                        accepted += 1;
                        let inside = if inclusive { v >= low && v <= high } else { v >= low && v < high };
                        if !inside { outside += 1; }
                        let mut idx = 0usize;
                        for (i, b) in v.pat_to_le().iter().enumerate() { idx |= (*b as usize) << (8 * i); }
                        counts[idx] += 1;
                    } else {
                        rejected += 1;
                    }
                }
                let hit = counts.iter().filter(|c| **c > 0).count();
                let minc = counts.iter().filter(|c| **c > 0).min().copied().unwrap_or(0);
                let maxc = counts.iter().max().copied().unwrap_or(0);
                (accepted, rejected, (outside, hit, (minc, maxc)))
            },
        }
        group_fn! { stds; args; { let w = args.bytes(0); };
            "standard" => { let mut r = Scripted::new(w); let v: $T = r.gen(); (v, r.served, r.calls) },
            "standard_twice" => { let mut r = Scripted::new(w); let a: $T = r.gen(); let b: $T = r.gen(); (a, b, r.served) },
        }
        group_fn! { fills; args; { let w = args.bytes(0); let len = args.usize(1); };
            "try_fill_slice" => { let mut r = Scripted::new(w); let mut v = vec![<$T>::ONE; len];
                let ok = bnum::random::try_fill_slice(&mut v[..], &mut r).is_ok();
                let mut bytes = Vec::new(); for x in v.iter() { bytes.extend(x.pat_to_le()); } (ok, bytes, r.served) },
            "gen_each" => { let mut r = Scripted::new(w); let mut bytes = Vec::new();
                for _ in 0..len { let x: $T = r.gen(); bytes.extend(x.pat_to_le()); } (true, bytes, r.served) },
            "try_fill_subslice" => { let mut r = Scripted::new(w); let mut v = vec![<$T>::ONE; len + 2];
                let ok = bnum::random::try_fill_slice(&mut v[1..len + 1], &mut r).is_ok();
                let untouched = v[0] == <$T>::ONE && v[len + 1] == <$T>::ONE;
                let mut bytes = Vec::new(); for x in v[1..len + 1].iter() { bytes.extend(x.pat_to_le()); } (ok && untouched, bytes, r.served) },
        }
        group_fn! { bigfills; args; { let total_bytes = args.usize(0); };
            // a slice of >= total_bytes bytes filled from the counter-based stream; verified in the driver against the same stream
            // (too large to ship to the monitor): (all elements equal the stream?, index of the first wrong element or len, bytes served, len)
            "try_fill_slice_big" => {
                let bytes = <$T as Pat>::PAT_BYTES;
                let len = (total_bytes + bytes - 1) / bytes;
                let mut v = vec![<$T>::ONE; len];
                let mut r = Scripted::new(&[]);
                let ok = bnum::random::try_fill_slice(&mut v[..], &mut r).is_ok();
                let mut expect = Scripted::new(&[]);
                let mut first_bad = len;
                let mut buf = vec![0u8; bytes];
                for (i, x) in v.iter().enumerate() {
                    expect.fill_bytes(&mut buf);
                    if x.pat_to_le() != buf { first_bad = i; break; }
                }
                (ok && first_bad == len, first_bad, (r.served, len))
            },
        }
        group_fn! { wprobes; args; { let low: $T = args.v(0); let high: $T = args.v(1); let method = args.usize(2); let s = args.u128(3) as u64; let ns = args.u128(4) as u64; let seed = args.u128(5) as u64; };
            "wprobe" => wprobe::<$T>(low, high, method, s, ns, seed),
        }
        pub fn run(g: &str, args: &Args, out: &mut String) -> bool {
            match g { "wprobe" => { wprobes(args, out); true } "range" => { ranges(args, out); true } "hist" => { hist(args, out); true } "std" => { stds(args, out); true }
                      "fill" => { fills(args, out); true } "bigfill" => { bigfills(args, out); true } _ => false }
        }
    };
}

for_cfgs!(gen_mods; run_bnum, bnum, body, body);

fn run(cfg: &str, g: &str, args: &Args, out: &mut String) -> bool {
    run_bnum(cfg, g, args, out)
}

fn main() {
    main_loop("C20", run);
}
