"""C01 — add / sub / neg / abs are exact mod 2^BITS in every overflow mode."""
import core
import gen
from core import PANIC, Some, opt
from props.common import thorough_aux, default_encode, default_decode, split_range, carry_count, chain_class

PROP = 'C01'
BIN = 'c01'
SIG = {'as': 'xxd'}
encode = default_encode(SIG)
decode = default_decode(SIG)
TASK_REQS = 2500
RULE = ('requests (a, b, carry) from structured families (extreme digits, boundaries, sparse, short, related operands, '
        'sums/differences targeted at MAX, MAX+1, MIN, MIN-1, 0; mixed-sign targets) plus complete enumeration of all 8-bit '
        'operand pairs; every request is executed through ~35 methods in the dev and the release build; a request is '
        'non-trivial when an overflow flag is set in at least one method, a carry/borrow crosses >= 2 digit boundaries, '
        'an operand is MIN, or the carry-in decides the flag; distinct = distinct (cfg, operands) request lines')


def configs(tier):
    return core.cfg_names(full=(tier == 'thorough'))


def budget(cfg, tier):
    base = 3000 if tier == 'quick' else 40000
    if cfg.bits == 8:
        return 65536 if tier == 'quick' else 131072
    if cfg.bits >= 4096:
        return base // 4
    return base


def requests(cfg, rng, n, tier, part, nparts, st):
    if cfg.bits == 8:
        total = 65536 if tier == 'quick' else 131072
        lo, hi = split_range(total, part, nparts)
        for i in range(lo, hi):
            a = cfg.val(i & 255)
            b = cfg.val((i >> 8) & 255)
            c = (i >> 16) & 1 if tier != 'quick' else ((i * 2654435761) >> 7) & 1
            yield 'as', (a, b, c)
        st['exhaustive'].append('%s: all 2^16 operand pairs%s' % (cfg.name, ' x both carry-in values' if tier != 'quick' else ''))
        return
    U = cfg.U()
    S = cfg.S()
    for _ in range(n):
        r = rng.random()
        c = rng.getrandbits(1)
        if r < 0.45:
            a, b = gen.pair(cfg, rng)
        elif r < 0.70:
            # a + b (or a - b) lands on a chosen boundary of the type
            a = gen.value(cfg, rng)
            t = rng.choice((cfg.max, cfg.max + 1, cfg.min, cfg.min - 1, 0, -1, cfg.max - 1, cfg.min + 1, cfg.max + 2, cfg.min - 2))
            if rng.random() < 0.5:
                b = t - a
            else:
                b = a - t
            if rng.random() < 0.3:
                b -= c  # so that the carry-in is what reaches the boundary
            b = cfg.wrap(b)
        elif r < 0.85:
            # mixed-sign forms: pattern of b is read with the other signedness
            a = gen.value(cfg, rng)
            O = S if not cfg.signed else U
            t = rng.choice((cfg.max, cfg.max + 1, cfg.min, cfg.min - 1, 0))
            if rng.random() < 0.5:
                bo = t - a      # a + bo = t
            else:
                bo = a - t      # a - bo = t
            bo = O.clamp(bo) if rng.random() < 0.5 else O.wrap(bo)
            b = cfg.val(O.pat(bo))
        else:
            a = gen.extreme_digits(cfg, rng)
            b = gen.extreme_digits(cfg, rng)
        yield 'as', (a, b, c)


def model(cfg, ctx, group, args):
    a, b, c = args
    U = cfg.U()
    S = cfg.S()
    pa, pb = cfg.pat(a), cfg.pat(b)
    exp = {}
    cls = set()

    def proj(name, exact, strict=True, sat=True, unchecked=False):
        v = cfg.wrap(exact)
        o = not cfg.fits(exact)
        exp['overflowing_' + name] = (v, o)
        exp['checked_' + name] = opt(o, v)
        exp['wrapping_' + name] = v
        if sat:
            exp['saturating_' + name] = cfg.clamp(exact)
        if strict:
            exp['strict_' + name] = PANIC if o else v
        if unchecked:
            exp['unchecked_' + name] = opt(o, v)
        if o:
            cls.add(name + ':overflow-' + ('above' if exact > cfg.max else 'below'))
        return o

    o_add = proj('add', a + b, unchecked=True)
    o_sub = proj('sub', a - b, unchecked=True)
    if cfg.signed:
        bu = pb
        proj('add_unsigned', a + bu)
        proj('sub_unsigned', a - bu)
        proj('neg', -a)
        proj('abs', abs(a))
        exp['unsigned_abs'] = abs(a)
        if a == cfg.min:
            cls.add('operand=MIN')
        if b == cfg.min:
            cls.add('operand-b=MIN')
    else:
        bs = S.val(pb)
        proj('add_signed', a + bs)
        proj('neg', -a, sat=False)
    # carry-in forms: flag <=> a +- b +- c not representable
    e = a + b + c
    exp['carrying_add'] = (cfg.wrap(e), not cfg.fits(e))
    if cfg.fits(e) != cfg.fits(a + b):
        cls.add('carry-in decides flag (add)')
    e = a - b - c
    exp['borrowing_sub'] = (cfg.wrap(e), not cfg.fits(e))
    if cfg.fits(e) != cfg.fits(a - b):
        cls.add('borrow-in decides flag (sub)')
    exp['abs_diff'] = abs(a - b)
    s = a + b
    exp['midpoint'] = (s // 2) if (not cfg.signed or s >= 0) else -((-s) // 2)
    if cfg.signed and s < 0 and s % 2:
        cls.add('midpoint: negative odd sum (rounds toward zero)')
    if not cfg.fits(s):
        cls.add('midpoint: a+b itself overflows')
    k = carry_count(cfg, pa, pb, 0)
    if k >= 2:
        cls.add('add:' + chain_class(cfg, k) + '@d%d' % cfg.dbits)
    k = carry_count(cfg, pa, pb, 0, sub=True)
    if k >= 2:
        cls.add('sub:' + chain_class(cfg, k) + '@d%d' % cfg.dbits)
    if cfg.signed and cfg.n >= 2:
        # overflow decided in the top digit while lower digits carry
        if o_add and carry_count(cfg, pa & (cfg.mask >> cfg.dbits), pb & (cfg.mask >> cfg.dbits), 0) >= 1:
            cls.add('signed add overflow with carry arriving from lower digits')
    if not cls:
        cls.add('plain')
    return exp, cls


REQUIRED = ['add:overflow-above', 'sub:overflow-below', 'carry-in decides flag (add)', 'borrow-in decides flag (sub)',
            'operand=MIN', 'neg:overflow-above', 'abs:overflow-above', 'add_signed:overflow-below', 'add_unsigned:overflow-above',
            'sub_unsigned:overflow-below', 'midpoint: negative odd sum (rounds toward zero)', 'midpoint: a+b itself overflows'] + \
    ['add:chain=full@d%d' % d for d in (8, 16, 32, 64)] + ['sub:chain=full@d%d' % d for d in (8, 16, 32, 64)] + \
    ['add:chain>=3@d%d' % d for d in (8, 16, 32, 64)]


def floors(st, tier):
    return ['class %r never observed' % c for c in REQUIRED if st['classes'].get(c, 0) == 0]


extra_passes = thorough_aux('props.c01', ('miri',), exh=True)
