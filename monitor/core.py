"""Core of the monitor: configurations, outcome parsing, comparison of an observed
outcome with the reference model's expectation, statistics.

The reference arithmetic is Python's built-in int.  Nothing in here calls into bnum.
"""
import hashlib
import re
import sys

if hasattr(sys, 'set_int_max_str_digits'):
    sys.set_int_max_str_digits(0)

PANIC = 'P'


class Any_:
    """Expected-outcome wildcard: the property does not constrain this outcome."""
    def __repr__(self):
        return 'ANY'


ANY = Any_()


class OneOf:
    """Expected outcome is any of the listed alternatives."""
    def __init__(self, *alts):
        self.alts = alts

    def __repr__(self):
        return 'OneOf' + repr(self.alts)


class NoPanic:
    """Only the absence of a panic is required."""
    def __repr__(self):
        return 'NOPANIC'


NOPANIC = NoPanic()


class Pred:
    """Expected outcome satisfies a predicate (with a description for reports)."""
    def __init__(self, fn, desc):
        self.fn = fn
        self.desc = desc

    def __repr__(self):
        return 'Pred(%s)' % self.desc


class NoCalib:
    """Exact expectation for bnum that must not be compared with the Rust primitive: the primitive's own implementation
    is known to deviate from the property's specification on this input (documented at each use)."""
    def __init__(self, inner):
        self.inner = inner

    def __repr__(self):
        return 'NoCalib(%r)' % (self.inner,)


class X:
    """An observed bit pattern of a bnum value: unsigned pattern p, width w bits."""
    __slots__ = ('p', 'w')

    def __init__(self, p, w):
        self.p = p
        self.w = w

    def __repr__(self):
        return 'x%0*x' % (self.w // 4, self.p)

    def __eq__(self, o):
        return isinstance(o, X) and o.p == self.p and o.w == self.w

    def __hash__(self):
        return hash((self.p, self.w))

    def signed(self):
        return self.p - (1 << self.w) if self.p >> (self.w - 1) else self.p


_cfg_re = re.compile(r'^(p?)([ui])(\d+)(?:x(\d+))?$')


class Cfg:
    """A configuration: 'u64x2' = BUint<2>, 'i8x17' = BIntD8<17>, 'pu32' = u32."""
    _cache = {}

    def __new__(cls, name):
        c = cls._cache.get(name)
        if c is None:
            c = object.__new__(cls)
            c._init(name)
            cls._cache[name] = c
        return c

    def _init(self, name):
        m = _cfg_re.match(name)
        if not m:
            raise ValueError('bad cfg ' + name)
        self.name = name
        self.prim = bool(m.group(1))
        self.signed = m.group(2) == 'i'
        if self.prim:
            self.dbits = int(m.group(3))
            self.n = 1
        else:
            self.dbits = int(m.group(3))
            self.n = int(m.group(4))
        self.bits = self.dbits * self.n
        self.bytes = self.bits // 8
        self.mod = 1 << self.bits
        self.mask = self.mod - 1
        if self.signed:
            self.min = -(1 << (self.bits - 1))
            self.max = (1 << (self.bits - 1)) - 1
        else:
            self.min = 0
            self.max = self.mod - 1
        self.pow2 = (self.bits & (self.bits - 1)) == 0
        self.B = 1 << self.dbits

    def __repr__(self):
        return self.name

    def __reduce__(self):
        return (Cfg, (self.name,))

    def fits(self, v):
        return self.min <= v <= self.max

    def wrap(self, v):
        v &= self.mask
        if self.signed and v >> (self.bits - 1):
            v -= self.mod
        return v

    def val(self, pat):
        """value denoted by an unsigned bit pattern"""
        return self.wrap(pat)

    def pat(self, v):
        return v & self.mask

    def hex(self, v):
        return 'x%0*x' % (self.bits // 4, v & self.mask)

    def clamp(self, v):
        return self.min if v < self.min else self.max if v > self.max else v

    def U(self):
        return Cfg(('pu%d' % self.bits) if self.prim else 'u%dx%d' % (self.dbits, self.n))

    def S(self):
        return Cfg(('pi%d' % self.bits) if self.prim else 'i%dx%d' % (self.dbits, self.n))

    def twin(self):
        """primitive of equal width and signedness, or None"""
        if self.bits in (8, 16, 32, 64, 128):
            return Cfg('p%s%d' % ('i' if self.signed else 'u', self.bits))
        return None

    def digits(self, v):
        p = v & self.mask
        return [(p >> (self.dbits * i)) & (self.B - 1) for i in range(self.n)]


QUICK_CFGS = {8: [1, 2, 3, 5, 8, 16, 17], 16: [1, 3, 4, 5, 8], 32: [1, 2, 3, 4, 6], 64: [1, 2, 3, 4, 5, 128]}
FULL_CFGS = {8: [1, 2, 3, 4, 5, 6, 8, 12, 16, 17, 24, 40, 64, 1024], 16: [1, 2, 3, 4, 5, 6, 8, 12, 20, 32],
             32: [1, 2, 3, 4, 5, 6, 8, 10, 16, 256], 64: [1, 2, 3, 4, 5, 8, 16, 128]}


def cfg_names(full=False, signs='ui'):
    t = FULL_CFGS if full else QUICK_CFGS
    out = []
    for d in (8, 16, 32, 64):
        for n in t[d]:
            for s in signs:
                out.append('%s%dx%d' % (s, d, n))
    return out


# ------------------------------------------------------------------ outcome parsing

_HEXCH = set('0123456789abcdef')


def parse_outcome(s):
    v, i = _parse(s, 0)
    if i != len(s):
        raise ValueError('trailing garbage in outcome %r at %d' % (s, i))
    return v


def _parse(s, i):
    c = s[i]
    if c == 'x':
        j = i + 1
        n = len(s)
        while j < n and s[j] in _HEXCH:
            j += 1
        return X(int(s[i + 1:j], 16), 4 * (j - i - 1)), j
    if c == 'd':
        j = i + 1
        n = len(s)
        if j < n and s[j] == '-':
            j += 1
        while j < n and s[j].isdigit():
            j += 1
        return int(s[i + 1:j]), j
    if c == 'P':
        return PANIC, i + 1
    if c == 'T':
        return True, i + 1
    if c == 'F':
        return False, i + 1
    if c == 'N':
        return None, i + 1
    if c == 'S':
        v, j = _parse(s, i + 1)
        return ('S', v), j
    if c == 'K':
        v, j = _parse(s, i + 1)
        return ('K', v), j
    if c == 'E':
        j = s.index(';', i)
        return ('E', s[i + 1:j]), j + 1
    if c == '(':
        items = []
        j = i + 1
        while True:
            v, j = _parse(s, j)
            items.append(v)
            if s[j] == ',':
                j += 1
                continue
            if s[j] == ')':
                return tuple(items), j + 1
            raise ValueError('bad tuple in %r' % s)
    if c == 'o':
        return ('o', s[i + 1]), i + 2
    if c == 's':
        j = s.index(';', i)
        return bytes.fromhex(s[i + 1:j]), j + 1
    if c == 'f':
        j = s.index(';', i)
        return ('f32', int(s[i + 1:j], 16)), j + 1
    if c == 'g':
        j = s.index(';', i)
        return ('f64', int(s[i + 1:j], 16)), j + 1
    if c == 'u':
        return (), i + 1
    raise ValueError('bad outcome %r at %d' % (s, i))


def parse_part(part):
    """'name=out name=out' -> list of (name, raw, parsed)"""
    res = []
    for tok in part.split():
        k = tok.index('=')
        res.append((tok[:k], tok[k + 1:], parse_outcome(tok[k + 1:])))
    return res


def matches(exp, obs):
    """Does the observed outcome satisfy the expectation?"""
    if exp is ANY:
        return True
    if isinstance(exp, NoCalib):
        return matches(exp.inner, obs)
    if exp is NOPANIC:
        return obs != PANIC
    if isinstance(exp, OneOf):
        return any(matches(e, obs) for e in exp.alts)
    if isinstance(exp, Pred):
        return bool(exp.fn(obs))
    if isinstance(exp, bool) or exp is None:
        return obs is exp
    if isinstance(exp, int):
        if isinstance(obs, X):
            return (exp - obs.p) % (1 << obs.w) == 0 and -(1 << obs.w) < exp < (1 << obs.w)
        if isinstance(obs, bool):
            return False
        return isinstance(obs, int) and obs == exp
    if isinstance(exp, X):
        return isinstance(obs, X) and obs.p == exp.p and obs.w == exp.w
    if isinstance(exp, tuple):
        if not isinstance(obs, tuple) or len(obs) != len(exp):
            return False
        if len(exp) == 2 and isinstance(exp[0], str) and exp[0] in ('S', 'K', 'E', 'o', 'f32', 'f64'):
            if obs[0] != exp[0]:
                return False
            if exp[0] in ('S', 'K'):
                return matches(exp[1], obs[1])
            return exp[1] is ANY or obs[1] == exp[1]
        return all(matches(e, o) for e, o in zip(exp, obs))
    if isinstance(exp, (bytes, str)):
        return obs == exp
    raise TypeError('bad expectation %r' % (exp,))


def Some(x):
    return ('S', x)


def Ok(x):
    return ('K', x)


def Err(kind):
    return ('E', kind)


def opt(flag_overflow, value):
    """projection used by checked_*: None iff overflow"""
    return None if flag_overflow else ('S', value)


def h64(s):
    return int.from_bytes(hashlib.blake2b(s.encode(), digest_size=8).digest(), 'little')
