"""C16 — results depend only on width, signedness and value, never on the digit type; constants.

(a) same request to every representation of a width through the drivers of C01..C12: outcomes must be textually identical
    (no arithmetic oracle involved);
(b) (narrow, wide) pairs: whenever the narrow checked form succeeds, the wide one must succeed with the same value;
(c) associated constants and the types:: aliases.
"""
import importlib
import random
import core
from core import PANIC, matches, parse_part, X
from props.common import default_encode, default_decode

PROP = 'C16'
BIN = 'c16'
SIG = {'consts': '', 'aliases': ''}
encode = default_encode(SIG)
decode = default_decode(SIG)
SOURCES = ['c01', 'c02', 'c03', 'c05', 'c06', 'c07', 'c08', 'c10', 'c11', 'c12', 'c14', 'c15', 'c18', 'c19', 'c20']
HEAVY = {'c03': 5, 'c10': 4}   # budget multipliers: division needs volume for the rare Knuth-D paths to differ between digit sizes
RULE = ('(a) for every width that exists in >= 2 digit types, the requests of the C01/02/03/05/06/07/08/10/11/12/14/15/18/19/20 generators are sent to '
        'every representation and every outcome is compared textually across representations (hashes and digit-operand forms '
        'excluded; outcomes the property leaves open are skipped); (b) for 16 (narrow, wide) pairs across digit types the checked '
        'forms / comparisons / decimal parse and print of the narrow type are compared with the wide type on the same values; '
        '(c) all associated constants of every configuration and the U128..I8192 aliases. Non-trivial: every cross-representation '
        'comparison of a request that is non-trivial for its source property; distinct = distinct (source, width, request)')
EXCLUDE = {'as_bnum_ia', 'as_bnum_ub',   # C19 targets that are chosen per digit family (different widths): not comparable
           'hash_a', 'hash_b', 'hash_xor_route', 'hash_add_route', 'hash_parse_route', 'hash_cast_route', 'hash_not_route'}
WIDE_OK = {
    'c01': ['checked_add', 'checked_sub', 'checked_neg', 'checked_abs', 'midpoint'],
    'c02': ['checked_mul'],
    'c03': ['checked_div', 'checked_rem', 'checked_div_euclid', 'checked_rem_euclid'],
    'c08': ['checked_pow', 'checked_ilog', 'checked_ilog2', 'checked_ilog10'],
    'c05': ['shl_exact'],
    'c07': ['eq', 'ne', 'lt', 'le', 'gt', 'ge', 'cmp', 'partial_cmp', 'min', 'max'],
    'c10': ['from_str'],
    'c11': ['to_str_radix_10'],
}
# forms returning (value, overflow flag), compared in both directions; and checked forms for which the converse direction is compared too
FLAG_OPS = {'c01': ['overflowing_add', 'overflowing_sub', 'carrying_add', 'borrowing_sub', 'overflowing_neg', 'overflowing_abs'],
            'c02': ['overflowing_mul'], 'c08': ['overflowing_pow']}
CONVERSE_OK = {'c01': ['checked_add', 'checked_sub', 'checked_neg', 'checked_abs'], 'c02': ['checked_mul'],
               # not the remainders: MIN % -1 is None in the narrow type (the division overflows) although the wide type's result 0 is representable
               'c03': ['checked_div', 'checked_div_euclid'], 'c08': ['checked_pow']}
PAIRS = [('u8x1', 'u16x3'), ('u16x1', 'u8x5'), ('u8x3', 'u64x2'), ('u32x2', 'u64x3'), ('u64x1', 'u8x17'), ('u64x2', 'u32x6'),
         ('u16x5', 'u64x2'), ('u64x4', 'u64x5')]
PAIRS = PAIRS + [(a.replace('u', 'i', 1), b.replace('u', 'i', 1)) for a, b in PAIRS]


def groups(full):
    t = core.FULL_CFGS if full else core.QUICK_CFGS
    by = {}
    for d in (8, 16, 32, 64):
        for n in t[d]:
            by.setdefault(d * n, []).append((d, n))
    out = []
    for w, reps in sorted(by.items()):
        if len(reps) >= 2:
            for s in 'ui':
                out.append((w, ['%s%dx%d' % (s, d, n) for d, n in reps]))
    return out


def make_tasks(runmod, tier, seed, scale, bins):
    full = tier == 'thorough'
    allbins = {}
    for mode in ('dev', 'rel'):
        paths, dt = runmod.build(SOURCES + [BIN], mode, full=full)
        allbins[mode] = paths
        print('[C16] built %d drivers (%s) in %.0fs' % (len(paths), mode, dt), flush=True)
    tasks = []
    n = int((600 if tier == 'quick' else 6000) * scale)
    for w, reps in groups(full):
        for src in SOURCES:
            nn = n if w <= 1024 else max(20, n // 30)
            nn *= HEAVY.get(src, 1)
            tasks.append({'prop': PROP, 'custom': 'same', 'src': src, 'reps': reps, 'width': w, 'n': nn, 'tier': tier, 'bins': allbins,
                          'seed': core.h64('%d/C16/same/%s/%s' % (seed, src, reps[0])), 'weight': w * 3})
    for nar, wide in PAIRS:
        for src in WIDE_OK:
            tasks.append({'prop': PROP, 'custom': 'wide', 'src': src, 'narrow': nar, 'wide': wide, 'n': n, 'tier': tier, 'bins': allbins,
                          'seed': core.h64('%d/C16/wide/%s/%s' % (seed, src, nar)), 'weight': 100})
    tasks.append({'prop': PROP, 'custom': 'consts', 'tier': tier, 'bins': allbins, 'seed': seed, 'weight': 1,
                  'cfgs': core.cfg_names(full=full)})
    return tasks


def _gen(src, cfg, rng, n, tier, st):
    P = importlib.import_module('props.' + src)
    kw = {'exhaustive': False} if src == 'c03' else {}
    if cfg.bits <= 16 and src != 'c03':
        # the sources enumerate small types exhaustively; here a sample is enough
        cfgx = cfg
    reqs = []
    dummy = {'exhaustive': [], 'no_sweeps': True}
    if src == 'c20':
        it = P.requests(cfg, rng, n * 3, tier, 0, 64 if cfg.bits <= 24 else 1, dummy)
    elif cfg.bits <= 16 and src != 'c03':
        it = P.requests(cfg, rng, n, tier, rng.randrange(64), 64, dummy, **kw)
    else:
        it = P.requests(cfg, rng, n, tier, 0, 1, dummy, **kw)
    for g, a in it:
        if (src == 'c03' and g == 'dd') or (src == 'c20' and g == 'hist'):
            continue
        reqs.append((g, a))
        if len(reqs) >= n:
            break
    return P, reqs


def _bnum_part(resp):
    return resp.split(' | ')[0].rstrip(' |')


def custom_task(task, st, runmod):
    kind = task['custom']
    rng = random.Random(task['seed'])
    if kind == 'consts':
        return consts_task(task, st, runmod)
    if kind == 'same':
        reps = [core.Cfg(c) for c in task['reps']]
        P, reqs = _gen(task['src'], reps[0], rng, task['n'], task['tier'], st)
        if not reqs:
            return
        for mode, paths in task['bins'].items():
            outs = []
            hdr = None
            for c in reps:
                lines = [runmod.encode_req(P, c, g, a) for g, a in reqs]
                try:
                    hdr, resp = runmod.run_driver(paths[P.BIN], '\n'.join(lines) + '\n', 900)
                except runmod.DriverFailure as e:
                    st['inconclusive'].append('driver failure (%s, %s, %s): %s' % (P.BIN, c.name, mode, e))
                    return
                if len(resp) != len(lines):
                    st['inconclusive'].append('driver answered %d of %d requests (%s %s)' % (len(resp), len(lines), P.BIN, c.name))
                    return
                outs.append((lines, resp))
            ctx = {'dbg': hdr['dbg'] == '1', 'endian': hdr.get('endian', 'little'), 'mode': mode}
            st['modes'][mode] += len(reqs)
            for c in reps:
                st['cfgs'][c.name] += len(reqs)
            for k, (g, a) in enumerate(reqs):
                exp, cls = P.model(reps[0], ctx, g, a)[:2]
                base = dict((n, r) for n, r, _ in parse_part(_bnum_part(outs[0][1][k])))
                nontrivial = any(not x.startswith('plain') for x in cls)
                st['requests'] += 1
                for ri in range(1, len(reps)):
                    other = dict((n, r) for n, r, _ in parse_part(_bnum_part(outs[ri][1][k])))
                    for name, raw in base.items():
                        if name in EXCLUDE or name.startswith('calib_'):
                            continue
                        st['events'] += 1
                        st['ops'][task['src'] + ':' + name] += 1
                        e = exp.get(name)
                        if e is not None and _left_open(e):
                            continue
                        if other.get(name) != raw:
                            runmod.add_violation(st, P_as(PROP), reps[ri], mode, outs[ri][0][k], task['src'] + ':' + name, '%s gives %s' % (reps[ri].name, other.get(name)),
                                                 '%s gives %s' % (reps[0].name, raw), 'representations of the same width disagree',
                                                 extra={'kind': 'same', 'src': task['src'], 'name': name, 'requests': [outs[0][0][k], outs[ri][0][k]]})
                cname = 'same-width %d bits via %s' % (task['width'], task['src'])
                st['classes'][cname if nontrivial else 'plain:' + cname] += 1
                if nontrivial:
                    st['nontrivial'].add(core.h64('%s/%d/%s' % (task['src'], task['width'], outs[0][0][k])))
                if len(st['samples']) < 2 and nontrivial:
                    st['samples'].append({'kind': 'same-width', 'mode': mode, 'requests': [o[0][k] for o in outs], 'responses': [o[1][k][:300] for o in outs]})
        return
    # ---- narrow / wide
    nar, wide = core.Cfg(task['narrow']), core.Cfg(task['wide'])
    src = task['src']
    P, reqs = _gen(src, nar, rng, task['n'], task['tier'], st)
    if src == 'c10':
        reqs = [(g, (s, 10)) for g, (s, r) in reqs if g == 'ps']
    if src == 'c11':
        reqs = [(g, (v, 10)) for g, (v, r) in reqs]
    for mode, paths in task['bins'].items():
        res = []
        for c in (nar, wide):
            lines = [runmod.encode_req(P, c, g, a) for g, a in reqs]
            try:
                hdr, resp = runmod.run_driver(paths[P.BIN], '\n'.join(lines) + '\n', 900)
            except runmod.DriverFailure as e:
                st['inconclusive'].append('driver failure (%s, %s, %s): %s' % (P.BIN, c.name, mode, e))
                return
            res.append((lines, resp))
        st['modes'][mode] += len(reqs)
        st['cfgs'][nar.name + '->' + wide.name] += len(reqs)
        for k, (g, a) in enumerate(reqs):
            nb = dict((n, o) for n, r, o in parse_part(_bnum_part(res[0][1][k])))
            wb = dict((n, (r, o)) for n, r, o in parse_part(_bnum_part(res[1][1][k])))
            st['requests'] += 1
            hit = False
            for name in WIDE_OK[src]:
                if name == 'shl_exact':
                    v, s = a
                    if not (s < nar.bits and nar.fits(v << s)):
                        continue
                    no, key = nb.get('shl'), 'shl'
                elif name == 'to_str_radix_10':
                    no, key = nb.get('to_str_radix'), 'to_str_radix'
                else:
                    no, key = nb.get(name), name
                if key not in wb or (no is None and key not in nb):
                    continue
                if no == PANIC:
                    # none of the compared forms may panic; if the narrow type panics where the wide type (same values) does not,
                    # extension does not commute with the operation
                    st['events'] += 1
                    st['ops'][src + ':' + key + ' (narrow vs wide)'] += 1
                    if wb[key][1] != PANIC:
                        runmod.add_violation(st, P_as(PROP), nar, mode, res[0][0][k], src + ':' + key + ' (narrow vs wide)', '%s panics' % nar.name,
                                             '%s gives %s on the same values' % (wide.name, wb[key][0]), 'extension into a wider type does not commute with the operation',
                                             extra={'kind': 'wide', 'src': src, 'name': key, 'requests': [res[0][0][k], res[1][0][k]]})
                    continue
                if no is None:
                    continue
                if name == 'from_str' and not (isinstance(no, tuple) and no[0] == 'S' and isinstance(no[1], tuple) and no[1][0] == 'K'):
                    continue
                expect = _to_values(no, nar)
                st['events'] += 1
                st['ops'][src + ':' + key + ' (narrow vs wide)'] += 1
                hit = True
                if not matches(expect, wb[key][1]):
                    runmod.add_violation(st, P_as(PROP), wide, mode, res[1][0][k], src + ':' + key + ' (narrow vs wide)', '%s gives %s' % (wide.name, wb[key][0]),
                                         '%s gives %r' % (nar.name, no), 'extension into a wider type does not commute with the operation',
                                         extra={'kind': 'wide', 'src': src, 'name': key, 'requests': [res[0][0][k], res[1][0][k]]})
            # (value, flag) forms and the converse direction: when the wide type reports a result without overflow (or Some) that is representable in
            # the narrow type, the narrow type must report exactly that; when the narrow type reports no overflow, so must the wide type
            for name in FLAG_OPS.get(src, []) + CONVERSE_OK.get(src, []):
                if name not in nb or name not in wb:
                    continue
                no, (wraw, wo) = nb[name], wb[name]
                if no is None and name in FLAG_OPS.get(src, []):
                    continue
                flagged = name in FLAG_OPS.get(src, [])
                if flagged:
                    n_ok = isinstance(no, tuple) and len(no) == 2 and isinstance(no[0], X) and no[1] is False
                    w_ok = isinstance(wo, tuple) and len(wo) == 2 and isinstance(wo[0], X) and wo[1] is False
                    nv = nar.val(no[0].p) if isinstance(no, tuple) and len(no) == 2 and isinstance(no[0], X) else None
                    wv = wide.val(wo[0].p) if w_ok else None
                else:
                    n_ok = isinstance(no, tuple) and len(no) == 2 and no[0] == 'S' and isinstance(no[1], X)
                    w_ok = isinstance(wo, tuple) and len(wo) == 2 and wo[0] == 'S' and isinstance(wo[1], X)
                    nv = nar.val(no[1].p) if n_ok else None
                    wv = wide.val(wo[1].p) if w_ok else None
                bad = None
                if flagged and n_ok and not (w_ok and wv == nv):
                    bad = ('%s gives %s' % (wide.name, wraw), '%s gives %r (no overflow)' % (nar.name, no))
                elif w_ok and nar.fits(wv) and not (n_ok and nv == wv):
                    bad = ('%s gives %r' % (nar.name, no), '%s gives %s, which the narrow type can represent' % (wide.name, wraw))
                if flagged or w_ok:
                    st['events'] += 1
                    st['ops'][src + ':' + name + ' (narrow vs wide, both directions)'] += 1
                    hit = hit or n_ok or (w_ok and nar.fits(wv))
                if bad:
                    runmod.add_violation(st, P_as(PROP), nar, mode, res[0][0][k], src + ':' + name + ' (narrow vs wide, both directions)', bad[0], bad[1],
                                         'extension into a wider type does not commute with the operation',
                                         extra={'kind': 'wide', 'src': src, 'name': name, 'requests': [res[0][0][k], res[1][0][k]]})
            cname = 'narrow->wide via %s' % src
            st['classes'][cname if hit else 'plain:' + cname + ' (narrow result not representable, nothing to compare)'] += 1
            if hit:
                st['nontrivial'].add(core.h64('%s/%s/%s' % (src, wide.name, res[0][0][k])))


def _left_open(e):
    """outcomes the source property leaves open (ANY / NOPANIC / OneOf) may differ between digit types; a Pred only means that the
    source model cannot predict the value (e.g. which in-range value a sampler returns) - representations must still agree on it"""
    if e is core.ANY or e is core.NOPANIC or isinstance(e, core.OneOf):
        return True
    if isinstance(e, tuple):
        return any(_left_open(x) for x in e)
    return False


class _P:
    pass


def P_as(pid):
    p = _P()
    p.PROP = pid
    return p


def _to_values(o, cfg):
    if isinstance(o, X):
        return cfg.val(o.p)
    if isinstance(o, tuple):
        if len(o) == 2 and o[0] in ('o', 'E', 'f32', 'f64'):
            return o
        return tuple(_to_values(x, cfg) if not (i == 0 and x in ('S', 'K')) else x for i, x in enumerate(o))
    return o


CONST_NAMES = ['ZERO', 'ONE', 'TWO', 'THREE', 'FOUR', 'FIVE', 'SIX', 'SEVEN', 'EIGHT', 'NINE', 'TEN']


def consts_task(task, st, runmod):
    lines = ['%s consts' % c for c in task['cfgs']] + ['u8x1 aliases']
    for mode, paths in task['bins'].items():
        try:
            hdr, resp = runmod.run_driver(paths[BIN], '\n'.join(lines) + '\n', 300)
        except runmod.DriverFailure as e:
            st['inconclusive'].append('driver failure (c16 consts, %s): %s' % (mode, e))
            return
        for line, r in zip(lines, resp):
            cname = line.split()[0]
            cfg = core.Cfg(cname)
            obs = dict((n, (raw, o)) for n, raw, o in parse_part(r))
            if line.endswith('aliases'):
                exp = {}
                for b in (128, 256, 512, 1024, 2048, 4096, 8192):
                    exp['U%d' % b] = (b, X((1 << b) - 1, b))
                    exp['I%d' % b] = (b, X(1 << (b - 1), b))
            else:
                exp = {'BITS': cfg.bits, 'BYTES': cfg.bits // 8, 'MIN': X(cfg.pat(cfg.min), cfg.bits), 'MAX': X(cfg.pat(cfg.max), cfg.bits)}
                for i, nm in enumerate(CONST_NAMES):
                    exp[nm] = X(i, cfg.bits)
                    if cfg.signed and i:
                        exp['NEG_' + nm] = X(cfg.pat(-i), cfg.bits)
            st['requests'] += 1
            for nm, e in exp.items():
                st['events'] += 1
                st['ops']['const:' + nm] += 1
                if nm not in obs or not matches(e, obs[nm][1]):
                    runmod.add_violation(st, P_as(PROP), cfg, mode, line, 'const:' + nm, obs.get(nm, ('missing',))[0], repr(e), 'constant does not denote the advertised value')
            for nm in obs:
                if nm not in exp:
                    st['unmodelled'][nm] += 1
            st['classes']['constants of a configuration'] += 1
            st['nontrivial'].add(core.h64('const/' + line))
        st['modes'][mode] += len(lines)


def model(cfg, ctx, group, args):
    raise NotImplementedError('C16 uses custom tasks')


def floors(st, tier):
    out = []
    for w, reps in groups(tier == 'thorough'):
        for src in SOURCES:
            c = 'same-width %d bits via %s' % (w, src)
            if st['classes'].get(c, 0) + st['classes'].get('plain:' + c, 0) == 0:
                out.append('no comparison observed for ' + c)
    for src in WIDE_OK:
        if st['classes'].get('narrow->wide via %s' % src, 0) == 0:
            out.append('no narrow->wide comparison observed via ' + src)
    if st['classes'].get('constants of a configuration', 0) == 0:
        out.append('constants not observed')
    return out


def replay(runmod, v):
    """re-executes the two recorded requests (same values on two representations / on the narrow and the wide type) and compares again"""
    ex = v.get('extra')
    if not ex:
        if v['op'].startswith('const:'):
            paths, _ = runmod.build([BIN], v['mode'])
            hdr, resp = runmod.run_driver(paths[BIN], v['request'] + '\n', 300)
            print('request : ' + v['request'])
            print('response: ' + resp[0][:2000])
            print('[C16] compare with the expected constant by eye: %s' % v['expected'])
            return 0
        print('INCONCLUSIVE property=C16 reason=replay file has no request pair')
        return 2
    P = importlib.import_module('props.' + ex['src'])
    full = any(r.split()[0] not in core.cfg_names(False) for r in ex['requests'])
    paths, _ = runmod.build([P.BIN], v['mode'], full=full)
    hdr, resp = runmod.run_driver(paths[P.BIN], '\n'.join(ex['requests']) + '\n', 600)
    outs = [dict((n, (r, o)) for n, r, o in parse_part(_bnum_part(x))) for x in resp]
    for q, x in zip(ex['requests'], resp):
        print('request : ' + q[:500])
        print('response: ' + _bnum_part(x)[:1500])
    name = ex['name']
    a, b = outs[0].get(name), outs[1].get(name)
    if ex['kind'] == 'same':
        bad = a is None or b is None or a[0] != b[0]
    else:
        nar = core.Cfg(ex['requests'][0].split()[0])
        if a is None or b is None:
            bad = True
        elif a[1] == PANIC:
            bad = b[1] != PANIC
        else:
            bad = not matches(_to_values(a[1], nar), b[1])
    if bad:
        print('VIOLATION property=C16 replay=(this file)')
        print('    %s: %s vs %s' % (name, a and a[0], b and b[0]))
        return 1
    print('[C16] replayed pair agrees now')
    return 0
