"""C15 — byte-slice decoding and endianness helpers denote the right value."""
import core
import gen
from core import Some
from props.common import thorough_aux, default_encode, default_decode

PROP = 'C15'
BIN = 'c15'
SIG = {'sl': 's', 'en': 'x'}
encode = default_encode(SIG)
decode = default_decode(SIG)
TASK_REQS = 3000
RULE = ('byte slices of every length 0..=2*BYTES+2 (sampled lengths for 8192-bit types) and every residue modulo the digit size: '
        'canonical encodings of structured values, zero/sign padded to longer lengths, with one garbage bit in the padding, with a '
        'sign byte inconsistent with the top digit, shortened (implicit extension), random bytes; to_be/from_be/to_le/from_le on '
        'structured values (little-endian natively; big-endian arms under Miri s390x in the thorough tier; *_bytes methods in the '
        'nightly build). Non-trivial: length != BYTES, partial last digit, excess bytes, negative sign-extension; distinct = '
        'distinct request lines')


def configs(tier):
    return core.cfg_names(full=(tier == 'thorough'))


def budget(cfg, tier):
    base = 4000 if tier == 'quick' else 40000
    if cfg.n >= 1024:
        return base // 8
    return base


def gen_slice(cfg, rng):
    B = cfg.bytes
    maxlen = 2 * B + 2
    r = rng.random()
    if r < 0.15:
        L = rng.randrange(0, min(maxlen, 70) + 1) if B <= 64 else rng.choice((0, 1, B - 1, B, B + 1, 2 * B + 2, rng.randrange(maxlen + 1)))
        return bytes(rng.getrandbits(8) for _ in range(L)), True
    v = gen.value(cfg, rng)
    big = rng.random() < 0.5
    if r < 0.45:
        # minimal-length encoding, possibly padded
        if cfg.signed:
            nb = max(1, (v.bit_length() + 8) // 8)
        else:
            nb = max(1, (v.bit_length() + 7) // 8)
        if rng.random() < 0.2:
            nb = max(1, nb - 1)  # drops the sign byte: changes the value for signed
        L = rng.choice((nb, nb, nb + 1, B, B + 1, B + 2, B + (cfg.dbits // 8), 2 * B, 2 * B + 2, rng.randrange(nb, maxlen + 1)))
        L = max(L, nb)
        raw = (v & ((1 << (8 * L)) - 1)).to_bytes(L, 'little')
        if nb < L and rng.random() < 0.15:
            raw = (v & ((1 << (8 * nb)) - 1)).to_bytes(nb, 'little') + bytes(L - nb)  # zero padding even for negative values
    elif r < 0.75:
        L = rng.choice((B + 1, B + 2, B + (cfg.dbits // 8), B + (cfg.dbits // 8) + 1, 2 * B, 2 * B + 2, rng.randrange(B + 1, maxlen + 1)))
        val = v & ((1 << (8 * L)) - 1)
        m = rng.random()
        if m < 0.5:
            val ^= 1 << rng.randrange(8 * B, 8 * L)        # one garbage bit in the padding
        elif m < 0.7:
            val ^= ((1 << (8 * (L - B))) - 1) << (8 * B)  # padding of the wrong sign
        elif m < 0.85 and cfg.signed:
            val ^= 1 << (8 * B - 1)                        # sign bit of the top digit inconsistent with the padding
        raw = val.to_bytes(L, 'little')
    else:
        L = rng.randrange(0, B + 1)
        raw = (cfg.pat(v) & ((1 << (8 * L)) - 1)).to_bytes(L, 'little') if L else b''
    return (raw[::-1] if big else raw), big


def requests(cfg, rng, n, tier, part, nparts, st):
    B = cfg.bytes
    if part == 0 and B <= 64:
        for L in range(0, 2 * B + 3):
            for fill in (0x00, 0xff, 0x80, 0x7f, 0x01):
                yield 'sl', (bytes([fill]) * L,)
            if L:
                yield 'sl', (bytes([0x80]) + bytes(L - 1),)
                yield 'sl', (bytes(L - 1) + bytes([0x80]),)
                yield 'sl', (bytes([0xff]) * (L - 1) + bytes([0x7f]),)
                yield 'sl', (bytes([0x7f]) + bytes([0xff]) * (L - 1),)
    if cfg.bits <= 16 and part == 0:
        import itertools
        for L in range(0, 6):
            for t in itertools.product((0x00, 0x01, 0x7f, 0x80, 0xff), repeat=L):
                yield 'sl', (bytes(t),)
        st['exhaustive'].append('%s: every byte string of length <= 5 over {00, 01, 7f, 80, ff}' % cfg.name)
    for k in range(n):
        if k % 4 == 3:
            yield 'en', (gen.value(cfg, rng),)
        else:
            yield 'sl', (gen_slice(cfg, rng)[0],)


def model(cfg, ctx, group, args):
    exp = {}
    cls = set()
    if group == 'sl':
        (b,) = args
        for nm, order in (('from_be_slice', 'big'), ('from_le_slice', 'little')):
            v = int.from_bytes(b, order, signed=cfg.signed) if b else 0
            exp[nm] = Some(v) if cfg.fits(v) else None
            if not cfg.fits(v):
                cls.add('value does not fit (excess bytes are not pure padding)')
            elif len(b) > cfg.bytes:
                cls.add('longer slice accepted: excess bytes are pure %s padding' % ('sign' if v < 0 else 'zero'))
        L = len(b)
        d = '@d%d' % cfg.dbits
        if L == 0:
            cls.add('empty slice')
        elif L < cfg.bytes:
            cls.add('shorter slice' + (', partial last digit' if L % (cfg.dbits // 8) else '') + d)
        elif L == cfg.bytes:
            cls.add('plain:exact length')
        else:
            cls.add('longer slice' + (', partial excess digit' if L % (cfg.dbits // 8) else '') + d)
        if cfg.signed and L and L < cfg.bytes and (b[0] & 0x80 or b[-1] & 0x80):
            cls.add('short slice with the sign bit set in an end byte')
    else:
        (a,) = args
        p = cfg.pat(a)
        sw = cfg.val(int.from_bytes(p.to_bytes(cfg.bytes, 'little'), 'big'))
        little = ctx.get('endian', 'little') == 'little'
        exp['to_be'] = exp['from_be'] = sw if little else a
        exp['to_le'] = exp['from_le'] = a if little else sw
        le = p.to_bytes(cfg.bytes, 'little')
        exp['to_le_bytes'] = le
        exp['to_be_bytes'] = le[::-1]
        exp['to_ne_bytes'] = le if little else le[::-1]
        for k in ('be_bytes_roundtrip', 'le_bytes_roundtrip', 'ne_bytes_roundtrip', 'from_le_bytes_of_pattern', 'from_be_bytes_of_pattern'):
            exp[k] = a
        cls.add('endianness helpers (%s-endian target)' % ('little' if little else 'big'))
        if sw == a:
            cls.add('plain:byte-palindromic value')
    return exp, cls


REQUIRED = ['empty slice', 'value does not fit (excess bytes are not pure padding)', 'longer slice accepted: excess bytes are pure zero padding',
            'longer slice accepted: excess bytes are pure sign padding', 'short slice with the sign bit set in an end byte',
            'endianness helpers (little-endian target)'] + \
    ['%s@d%d' % (c, d) for d in (8, 16, 32, 64) for c in ('shorter slice', 'longer slice')] + \
    ['%s@d%d' % (c, d) for d in (16, 32, 64) for c in ('shorter slice, partial last digit', 'longer slice, partial excess digit')]


def floors(st, tier):
    req = REQUIRED + (['endianness helpers (big-endian target)'] if tier == 'thorough' else [])
    out = ['class %r never observed' % c for c in req if st['classes'].get(c, 0) == 0]
    if tier == 'thorough' and st['ops'].get('to_be_bytes', 0) == 0:
        out.append('the nightly-only *_bytes methods were never observed')
    return out


extra_passes = thorough_aux('props.c15', ('miri-be', 'nightly'))
