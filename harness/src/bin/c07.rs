//! C07 driver: comparison, equality, hashing, sign predicates. group "cmp": args a:T b:T c:T
use bnum_verif_harness::*;
use std::hash::{Hash, Hasher};

/// Fixed deterministic hasher (FNV-1a, 64 bit) so that hashes are comparable across runs.
pub struct Fnv(u64);
impl Hasher for Fnv {
    fn finish(&self) -> u64 { self.0 }
    fn write(&mut self, bytes: &[u8]) {
        for b in bytes { self.0 ^= *b as u64; self.0 = self.0.wrapping_mul(0x100000001b3); }
    }
}
pub fn fnv<T: Hash>(x: &T) -> u64 {
    let mut h = Fnv(0xcbf29ce484222325);
    x.hash(&mut h);
    h.finish()
}

macro_rules! common_list {
    ($f:ident, $T:ty) => {
        group_fn! { $f; args; { let a: $T = args.v(0); let b: $T = args.v(1); let c: $T = args.v(2); };
            "eq" => a == b,
            "ne" => a != b,
            "lt" => a < b,
            "le" => a <= b,
            "gt" => a > b,
            "ge" => a >= b,
            "cmp" => Ord::cmp(&a, &b),
            "partial_cmp" => PartialOrd::partial_cmp(&a, &b),
            "min" => a.min(b),
            "max" => a.max(b),
            "ord_min" => Ord::min(a, b),
            "ord_max" => Ord::max(a, b),
            "clamp" => a.clamp(b, c),
            "ord_clamp" => Ord::clamp(a, b, c),
            "eq_self" => a == a,
            "cmp_rev" => Ord::cmp(&b, &a),
        }
    };
}
macro_rules! signed_list {
    ($f:ident, $T:ty) => {
        group_fn! { $f; args; { let a: $T = args.v(0); };
            "signum" => a.signum(),
            "is_positive" => a.is_positive(),
            "is_negative" => a.is_negative(),
        }
    };
}
macro_rules! hash_list {
    ($f:ident, $T:ty, $W:ty) => {
        group_fn! { $f; args; { let a: $T = args.v(0); let b: $T = args.v(1); use bnum::cast::As; };
            "hash_a" => fnv(&a),
            "hash_b" => fnv(&b),
            "hash_xor_route" => fnv(&((a ^ b) ^ b)),
            "hash_add_route" => fnv(&(a.wrapping_add(b).wrapping_sub(b))),
            "hash_parse_route" => fnv(&<$T>::from_str_radix(&a.to_str_radix(10), 10).unwrap()),
            "hash_cast_route" => fnv(&(As::as_::<$T>(As::as_::<$W>(a)))),
            "hash_not_route" => fnv(&(!!a)),
            "const_eq" => <$T>::eq(&a, &b),
            "const_ne" => <$T>::ne(&a, &b),
            "const_cmp" => <$T>::cmp(&a, &b),
            "const_lt" => <$T>::lt(&a, &b),
            "const_le" => <$T>::le(&a, &b),
            "const_gt" => <$T>::gt(&a, &b),
            "const_ge" => <$T>::ge(&a, &b),
        }
    };
}

macro_rules! body_u {
    (bnum, $T:ty, $U:ty, $S:ty $(, $rest:tt)*) => {
        common_list!(common, $T);
        hash_list!(hashes, $T, BUintD32<264>);
        pub fn run(g: &str, args: &Args, out: &mut String) -> bool {
            match g { "cmp" => { common(args, out); hashes(args, out); true } _ => false }
        }
    };
    (prim, $T:ty, $U:ty, $S:ty $(, $rest:tt)*) => {
        common_list!(common, $T);
        pub fn run(g: &str, args: &Args, out: &mut String) -> bool {
            match g { "cmp" => { common(args, out); true } _ => false }
        }
    };
}
macro_rules! body_i {
    (bnum, $T:ty, $U:ty, $S:ty $(, $rest:tt)*) => {
        common_list!(common, $T);
        signed_list!(sgn, $T);
        hash_list!(hashes, $T, BIntD32<264>);
        pub fn run(g: &str, args: &Args, out: &mut String) -> bool {
            match g { "cmp" => { common(args, out); sgn(args, out); hashes(args, out); true } _ => false }
        }
    };
    (prim, $T:ty, $U:ty, $S:ty $(, $rest:tt)*) => {
        common_list!(common, $T);
        signed_list!(sgn, $T);
        pub fn run(g: &str, args: &Args, out: &mut String) -> bool {
            match g { "cmp" => { common(args, out); sgn(args, out); true } _ => false }
        }
    };
}

for_cfgs!(gen_mods; run_bnum, bnum, body_u, body_i);
for_prims!(gen_mods; run_prim, prim, body_u, body_i);

fn run(cfg: &str, g: &str, args: &Args, out: &mut String) -> bool {
    run_bnum(cfg, g, args, out) || run_prim(cfg, g, args, out)
}

fn main() {
    main_loop("C07", run);
}
