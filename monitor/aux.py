"""Auxiliary passes: the same driver + monitor, but the driver runs under an interpreter / sanitizer / other toolchain:

  miri      cargo +nightly miri run                      (UB, provenance, alignment, out-of-bounds in the few unsafe sites)
  miri-be   ... --target s390x-unknown-linux-gnu         (big-endian: the cfg(target_endian = "big") arms)
  asan      nightly, -Zsanitizer=address, release
  nightly   nightly toolchain with bnum's `nightly` feature (to_*_bytes / from_*_bytes)

Every response is judged by the property's normal model; a sanitizer / interpreter report is a violation of the property whose
workload triggered it.  Budgets are small (Miri costs ~4 orders of magnitude)."""
import concurrent.futures as cf
import os
import random
import subprocess
import time

import core

_HERE = os.path.dirname(os.path.abspath(__file__))
ROOT = os.path.dirname(_HERE)


def _cmd(runmod, kind, binname, full):
    harness = runmod.harness_dir()
    env = runmod.cargo_env()
    feats = ['full'] if full else []
    if kind in ('miri', 'miri-be'):
        env['CARGO_TARGET_DIR'] = runmod.target_dir('miri' + ('-full' if full else ''))
        env['MIRIFLAGS'] = '-Zmiri-disable-isolation'
        cmd = ['cargo', '+nightly', 'miri', 'run', '--offline', '--manifest-path', os.path.join(harness, 'Cargo.toml'), '--bin', binname]
        if kind == 'miri-be':
            cmd += ['--target', 's390x-unknown-linux-gnu']
        if feats:
            cmd += ['--features', ','.join(feats)]
        return cmd + ['--'], env, None
    if kind == 'asan':
        env['CARGO_TARGET_DIR'] = runmod.target_dir('asan' + ('-full' if full else ''))
        env['RUSTFLAGS'] = '-Zsanitizer=address -Cforce-frame-pointers=yes'
        env['ASAN_OPTIONS'] = 'halt_on_error=1:abort_on_error=0:detect_leaks=1'
        cmd = ['cargo', '+nightly', 'build', '--offline', '--release', '--target', 'x86_64-unknown-linux-gnu', '--manifest-path',
               os.path.join(harness, 'Cargo.toml'), '--bin', binname]
        if feats:
            cmd += ['--features', ','.join(feats)]
        binpath = os.path.join(env['CARGO_TARGET_DIR'], 'x86_64-unknown-linux-gnu', 'release', binname)
        return cmd, env, binpath
    if kind == 'nightly':
        env['CARGO_TARGET_DIR'] = runmod.target_dir('nightly' + ('-full' if full else ''))
        cmd = ['cargo', '+nightly', 'build', '--offline', '--manifest-path', os.path.join(harness, 'Cargo.toml'), '--bin', binname,
               '--features', ','.join(feats + ['nightly'])]
        binpath = os.path.join(env['CARGO_TARGET_DIR'], 'debug', binname)
        return cmd, env, binpath
    raise ValueError(kind)


def prepare(runmod, kind, binname, full):
    """build (or warm up) once; returns (argv_prefix, binpath or None, env)"""
    runmod.ensure_link()
    cmd, env, binpath = _cmd(runmod, kind, binname, full)
    os.makedirs(os.path.join(ROOT, 'logs'), exist_ok=True)
    log = os.path.join(ROOT, 'logs', 'aux-%s-%s.log' % (kind, binname))
    if kind in ('miri', 'miri-be'):
        if kind == 'miri-be':
            p = subprocess.run(['cargo', '+nightly', 'miri', 'setup', '--target', 's390x-unknown-linux-gnu'], env=env, stdout=subprocess.PIPE,
                               stderr=subprocess.STDOUT, text=True)
            if p.returncode != 0:
                raise runmod.BuildError('cargo miri setup for s390x failed:\n' + p.stdout[-1500:])
        # warm-up run with an empty request file builds the driver under Miri
        empty = os.path.join(runmod.BUILD, 'empty.req')
        open(empty, 'w').close()
        p = subprocess.run(cmd + ['--in', empty], env=env, stdout=subprocess.PIPE, stderr=subprocess.STDOUT, text=True)
        open(log, 'w').write(' '.join(cmd) + '\n' + p.stdout)
        if p.returncode != 0 or '#H' not in p.stdout:
            raise runmod.BuildError('building the driver under %s failed:\n%s' % (kind, p.stdout[-2000:]))
        return cmd, None, env
    p = subprocess.run(cmd, env=env, stdout=subprocess.PIPE, stderr=subprocess.STDOUT, text=True)
    open(log, 'w').write(' '.join(cmd) + '\n' + p.stdout)
    if p.returncode != 0:
        errs = '\n'.join([l for l in p.stdout.splitlines() if l.startswith('error')][:15])
        raise runmod.BuildError('%s build of %s failed:\n%s' % (kind, binname, errs or p.stdout[-2000:]))
    return [], binpath, env


def _aux_task(t):
    """one chunk of requests through the special runner, judged by the normal model"""
    import importlib
    import sys
    sys.path.insert(0, _HERE)
    import run as runmod
    st = runmod.new_stats()
    st['reports'] = []
    try:
        prop = importlib.import_module('props.' + t['prop'].lower())
        cfg = core.Cfg(t['cfg'])
        reqs = t['reqs']
        lines = [runmod.encode_req(prop, cfg, g, a) for g, a in reqs]
        path = os.path.join(runmod.BUILD, 'aux-%s-%s-%s-%d.req' % (t['kind'], t['prop'], t['cfg'], t['chunk']))
        with open(path, 'w') as f:
            f.write('\n'.join(lines) + '\n')
        if t['binpath']:
            cmd = [t['binpath'], '--in', path]
        else:
            cmd = list(t['argv']) + ['--in', path]
        try:
            p = subprocess.run(cmd, env=t['env'], capture_output=True, text=True, timeout=t['timeout'])
        except subprocess.TimeoutExpired:
            st['inconclusive'].append('%s pass: watchdog timeout on %s chunk %d' % (t['kind'], t['cfg'], t['chunk']))
            return st
        finally:
            pass
        out = p.stdout.split('\n')
        out = [l for l in out if l]
        hdr_i = next((i for i, l in enumerate(out) if l.startswith('#H')), None)
        if hdr_i is None:
            st['inconclusive'].append('%s pass: no header (rc=%s): %s' % (t['kind'], p.returncode, (p.stderr or p.stdout)[-600:]))
            return st
        hdr = dict(kv.split('=') for kv in out[hdr_i].split()[1:])
        resp = out[hdr_i + 1:]
        err = p.stderr or ''
        report = None
        if 'Undefined Behavior' in err or 'AddressSanitizer' in err or 'LeakSanitizer' in err or 'unsupported operation' in err:
            k = max(err.find('Undefined Behavior'), err.find('AddressSanitizer'), err.find('LeakSanitizer'), err.find('unsupported operation'))
            report = err[max(0, k - 200):k + 1500]
        n = min(len(resp), len(lines))
        for (g, a), line, r in zip(reqs[:n], lines[:n], resp[:n]):
            runmod.judge_line(prop, cfg, hdr['dbg'] == '1', g, a, r, st, line, t['kind'], hdr.get('endian', 'little'))
        st['modes'][t['kind'] + ('(big-endian)' if hdr.get('endian') == 'big' else '')] += n
        st['cfgs'][cfg.name] += n
        if report is not None:
            nxt = lines[n] if n < len(lines) else '(after the last request)'
            st['reports'].append({'kind': t['kind'], 'cfg': cfg.name, 'request': nxt, 'report': report})
            runmod.add_violation(st, prop, cfg, t['kind'], nxt, t['kind'] + ':report', report[:400].replace('\n', ' | '),
                                 'no sanitizer / interpreter report', 'the real code triggered a %s report on this workload' % t['kind'])
        elif p.returncode != 0 or n < len(lines):
            st['inconclusive'].append('%s pass: driver stopped after %d of %d requests on %s (rc=%s): %s' % (t['kind'], n, len(lines), cfg.name, p.returncode, err[-400:]))
        try:
            os.unlink(path)
        except OSError:
            pass
    except Exception:
        import traceback
        st['inconclusive'].append('%s pass worker crashed: %s' % (t.get('kind'), traceback.format_exc()[-1200:]))
    return st


def run_pass(runmod, prop, kind, tier, seed, st, cfgs, nreq, jobs, groups=None, chunk=120, timeout=1500, reqgen=None):
    """Runs `nreq` requests per configuration under `kind`; merges into st; returns a coverage dict."""
    t0 = time.time()
    full = tier == 'thorough'
    argv, binpath, env = prepare(runmod, kind, prop.BIN, full)
    tasks = []
    for cname in cfgs:
        cfg = core.Cfg(cname)
        rng = random.Random(core.h64('%d/%s/%s/%s' % (seed, prop.PROP, kind, cname)))
        dummy = {'exhaustive': []}
        reqs = []
        gen = reqgen(cfg, rng, nreq) if reqgen else prop.requests(cfg, rng, nreq * 4, tier, rng.randrange(1 << 20), 1 << 20, dummy)
        for g, a in gen:
            if groups is not None and g not in groups:
                continue
            reqs.append((g, a))
            if len(reqs) >= nreq:
                break
        for c in range(0, len(reqs), chunk):
            tasks.append({'prop': prop.PROP, 'kind': kind, 'cfg': cname, 'reqs': reqs[c:c + chunk], 'chunk': c // chunk, 'argv': argv, 'binpath': binpath,
                          'env': env, 'timeout': timeout})
    agg = runmod.new_stats()
    reports = []
    with cf.ProcessPoolExecutor(max_workers=jobs) as ex:
        for r in ex.map(_aux_task, tasks, chunksize=1):
            reports += r.pop('reports', [])
            runmod.merge(agg, r)
    cov = {'requests': agg['requests'], 'events': agg['events'], 'reports': len(reports), 'configurations': len(cfgs), 'wall_s': round(time.time() - t0, 1),
           'violations': agg['violations']}
    runmod.merge(st, agg)
    print('[%s] %s pass: %d requests, %d events, %d reports, %d violating events, %.0fs' % (prop.PROP, kind, cov['requests'], cov['events'], cov['reports'],
                                                                                          agg['violations'], cov['wall_s']), flush=True)
    return cov


# ------------------------------------------------------------------ exhaustive 16-bit sweeps against the primitive

def _exh_task(t):
    try:
        p = subprocess.run([t['bin']], input=t['line'] + '\n', capture_output=True, text=True, timeout=3600)
    except subprocess.TimeoutExpired:
        return t, None, 'timeout'
    out = [l for l in p.stdout.split('\n') if l and not l.startswith('#')]
    if p.returncode != 0 or not out:
        return t, None, 'rc=%s %s' % (p.returncode, p.stderr[-300:])
    return t, out[0], None


def exhaustive16(runmod, prop, group, tier, seed, st, jobs):
    """All operand pairs (thorough) or 1/128 of the first-operand space x all second operands (quick) of the four 16-bit
    configurations and the two 8-bit ones, each total operation compared in-process with the Rust primitive."""
    t0 = time.time()
    paths, _ = runmod.build(['exh'], 'rel')
    tasks = []
    rng = random.Random(core.h64('%d/exh/%s' % (seed, prop.PROP)))
    for cname in ('u8x1', 'i8x1', 'u8x2', 'i8x2', 'u16x1', 'i16x1'):
        span = 1 << core.Cfg(cname).bits
        if span == 256:
            chunks = [(0, 256)]
        elif tier == 'thorough':
            chunks = [(a, a + 512) for a in range(0, span, 512)]
        else:
            # 8 slices of 64 first operands: the ends of the range plus random positions
            w = max(8, int(64 * getattr(prop, 'EXH_SCALE', 1)))   # slower operations (gcd) get narrower slices
            starts = [0, span - w, span // 2 - w // 2, span // 2] + [rng.randrange(0, span - w) for _ in range(4)]
            chunks = [(a, a + w) for a in starts]
        for lo, hi in chunks:
            tasks.append({'bin': paths['exh'], 'cfg': cname, 'line': '%s %s d%d d%d' % (cname, prop.BIN, lo, hi)})
    # bulk mode: structured pseudo-random operand pairs on every digit-type representation of the 32/64/128-bit widths
    nbulk, per = (1, int(2000000 * getattr(prop, 'EXH_SCALE', 1))) if tier != 'thorough' else (48, 4000000)
    bulk_cfgs = ['u8x4', 'u16x2', 'u32x1', 'u8x8', 'u16x4', 'u32x2', 'u64x1', 'u8x16', 'u16x8', 'u32x4', 'u64x2']
    bulk_cfgs += ['i' + c[1:] for c in bulk_cfgs]
    for cname in bulk_cfgs:
        for k in range(nbulk):
            tasks.append({'bin': paths['exh'], 'cfg': cname, 'bulk': True,
                          'line': '%s %s d%d d%d d1' % (cname, prop.BIN, rng.getrandbits(62) | 1, per if prop.BIN != 'c08' else per // 4)})
    evals = bad = 0
    bulk_evals = 0
    with cf.ProcessPoolExecutor(max_workers=jobs) as ex:
        for t, line, err in ex.map(_exh_task, tasks, chunksize=1):
            if err:
                st['inconclusive'].append('exhaustive sweep failed on %s: %s' % (t['line'], err))
                continue
            o = core.parse_outcome(line.split('=', 1)[1])
            evals += o[0]
            st['events'] += o[0]
            st['requests'] += 1
            st['ops'][('bulk-vs-primitive:' if t.get('bulk') else 'exhaustive16:') + t['cfg']] += o[0]
            if t.get('bulk'):
                bulk_evals += o[0]
            if o[1]:
                bad += o[1]
                st['violations'] += o[1]
                runmod.add_violation(st, prop, core.Cfg(t['cfg']), 'rel', t['line'], 'bulk-vs-primitive' if t.get('bulk') else 'exhaustive16', o[2].decode('utf8', 'replace'),
                                     'the Rust primitive of the same width (executed in-process)', '%d of the swept operand pairs disagree with the primitive' % o[1])
    full = tier == 'thorough'
    label = '16-bit types %s vs the primitive: %s' % (', '.join(('u8x2', 'i8x2', 'u16x1', 'i16x1')),
                                                       'ALL 2^32 operand pairs' if full else '512 of 65536 first operands x all second operands')
    st['exhaustive'].append(label)
    st['classes']['exhaustive sweep against the primitive (8/16-bit)'] += len(tasks) - len(bulk_cfgs) * nbulk
    st['classes']['bulk differential run against the primitive (32/64/128-bit, every digit type)'] += len(bulk_cfgs) * nbulk
    st['nontrivial'].add(core.h64('exh/%s/%s' % (prop.PROP, tier)))
    print('[%s] exhaustive16 + bulk-vs-primitive pass: %d evaluations (%d of them bulk at 32/64/128 bits), %d mismatches, %.0fs' % (prop.PROP, evals, bulk_evals, bad, time.time() - t0), flush=True)
    return {'evaluations': evals, 'mismatches': bad, 'complete_pair_space_16bit': full, 'bulk_evaluations_32_64_128bit': bulk_evals,
            'bulk_operand_pairs_per_configuration': nbulk * per, 'wall_s': round(time.time() - t0, 1)}


# ------------------------------------------------------------------ reach audit (line coverage of the property's anchor files)

def coverage_audit(runmod, prop, tier, seed, st, jobs, nreq=150):
    """Auxiliary evidence, never a verdict: which lines of the property's anchor files (properties.jsonl) the workload executed.
    Driver rebuilt with -Cinstrument-coverage (nightly, dev), a small workload on every configuration, llvm-profdata + llvm-cov."""
    import json
    import glob
    import shutil
    t0 = time.time()
    sysroot = subprocess.run(['rustc', '+nightly', '--print', 'sysroot'], capture_output=True, text=True).stdout.strip()
    tools = os.path.join(sysroot, 'lib', 'rustlib', 'x86_64-unknown-linux-gnu', 'bin')
    profdata, llvmcov = os.path.join(tools, 'llvm-profdata'), os.path.join(tools, 'llvm-cov')
    if not (os.path.exists(profdata) and os.path.exists(llvmcov)):
        return {'skipped': 'llvm-profdata / llvm-cov not found in the nightly sysroot'}
    runmod.ensure_link()
    env = runmod.cargo_env()
    full = tier == 'thorough'
    env['CARGO_TARGET_DIR'] = runmod.target_dir('cov' + ('-full' if full else ''))
    env['RUSTFLAGS'] = '-Cinstrument-coverage'
    cmd = ['cargo', '+nightly', 'build', '--offline', '--manifest-path', os.path.join(runmod.harness_dir(), 'Cargo.toml'), '--bin', prop.BIN]
    if full:
        cmd += ['--features', 'full']
    p = subprocess.run(cmd, env=env, stdout=subprocess.PIPE, stderr=subprocess.STDOUT, text=True)
    if p.returncode != 0:
        return {'skipped': 'coverage build failed: ' + p.stdout[-400:]}
    binpath = os.path.join(env['CARGO_TARGET_DIR'], 'debug', prop.BIN)
    covdir = os.path.join(runmod.BUILD, 'cov-' + prop.PROP)
    shutil.rmtree(covdir, ignore_errors=True)
    os.makedirs(covdir)
    procs = []
    cfgs = prop.configs(tier)
    for i, cname in enumerate(cfgs):
        cfg = core.Cfg(cname)
        rng = random.Random(core.h64('%d/%s/cov/%s' % (seed, prop.PROP, cname)))
        reqs = []
        mf = getattr(prop, 'mode_filter', None)
        for g, a in prop.requests(cfg, rng, nreq, tier, rng.randrange(1 << 20), 1 << 20, {'exhaustive': []}):
            if mf and not mf(cfg, g, 'dev'):
                continue    # release-only request groups (2^24-draw histograms, word-space probes, > 512 MiB fills) are not for the instrumented debug build
            reqs.append(runmod.encode_req(prop, cfg, g, a))
            if len(reqs) >= nreq:
                break
        if not reqs:
            continue
        f = os.path.join(covdir, cname + '.req')
        open(f, 'w').write('\n'.join(reqs) + '\n')
        e2 = dict(os.environ, LLVM_PROFILE_FILE=os.path.join(covdir, cname + '.profraw'))
        procs.append(subprocess.Popen([binpath, '--in', f], env=e2, stdout=subprocess.DEVNULL, stderr=subprocess.DEVNULL))
        if len(procs) >= jobs:
            procs.pop(0).wait()
    for p in procs:
        p.wait()
    raws = glob.glob(os.path.join(covdir, '*.profraw'))
    if not raws:
        return {'skipped': 'no profile data produced'}
    merged = os.path.join(covdir, 'merged.profdata')
    subprocess.run([profdata, 'merge', '-sparse', '-o', merged] + raws, check=False, capture_output=True)
    repo = runmod.repo_path()
    out = subprocess.run([llvmcov, 'export', '--format=text', '--summary-only', '--instr-profile', merged, binpath], capture_output=True, text=True)
    res = {}
    try:
        data = json.loads(out.stdout)
        anchors = set()
        for l in open(os.path.join(ROOT, 'properties.jsonl')):
            d = json.loads(l)
            if d['id'] == prop.PROP:
                anchors = set(d['anchors']['files'])
        for f in data['data'][0]['files']:
            fn = os.path.realpath(f['filename'])
            if fn.startswith(repo + '/'):
                rel = fn[len(repo) + 1:]
                if rel in anchors:
                    s = f['summary']
                    res[rel] = {'lines': s['lines']['count'], 'lines_executed': s['lines']['covered'],
                                'regions': s['regions']['count'], 'regions_executed': s['regions']['covered']}
    except Exception as e:
        return {'skipped': 'could not read llvm-cov output: %s' % e}
    shutil.rmtree(covdir, ignore_errors=True)
    tot = sum(v['lines'] for v in res.values()) or 1
    hit = sum(v['lines_executed'] for v in res.values())
    print('[%s] reach audit: %d of %d lines of the %d anchor files executed by a %d-request-per-configuration workload (%.0fs)' % (
        prop.PROP, hit, tot, len(res), nreq, time.time() - t0), flush=True)
    return {'note': 'auxiliary reach report (dev build, instantiations of all four digit types merged by llvm-cov); never a verdict',
            'requests_per_configuration': nreq, 'anchor_files': res, 'lines_executed': hit, 'lines_total': tot, 'wall_s': round(time.time() - t0, 1)}


def float_sweeps(runmod, prop, tier, seed, st, jobs):
    """C14 against Rust `as`, executed in-process: float -> integer for f32 bit patterns (thorough: ALL 2^32 patterns on each of the 28
    8..128-bit configurations; quick: 18 slices of 2^20 patterns per configuration, centred on 0, 0.5, 1, 2^(BITS-1), 2^BITS, infinity/NaN, their negatives, and at
    random), each pattern also widened to f64 and as the head of a 64-bit pattern; integer -> f32/f64 for all 8/16-bit values and in bulk
    (structured pseudo-random) for the 32/64/128-bit configurations."""
    t0 = time.time()
    paths, _ = runmod.build(['exh'], 'rel')
    rng = random.Random(core.h64('%d/floatsweep' % seed))
    small = ['u8x1', 'i8x1', 'u8x2', 'i8x2', 'u16x1', 'i16x1']
    big = ['u8x4', 'u16x2', 'u32x1', 'u8x8', 'u16x4', 'u32x2', 'u64x1', 'u8x16', 'u16x8', 'u32x4', 'u64x2']
    big += ['i' + c[1:] for c in big]
    tasks = []
    for cname in small + big:
        bits = core.Cfg(cname).bits
        if tier == 'thorough':
            ranges = [(c << 24, (c + 1) << 24) for c in range(256)]
        else:
            # 1M-pattern slices centred on 0, 0.5, 1.0, 2^(BITS-1), 2^BITS, the largest finite values / infinity / NaN, their negatives, + random
            centres = [0x00080000, 0x3f000000, 0x3f800000, (127 + bits - 1) << 23, (127 + bits) << 23, 0x7f800000]
            centres = [c for c in centres if c < 0x7ff80000]
            centres += [c | 0x80000000 for c in centres]
            centres += [rng.randrange(1 << 19, (1 << 32) - (1 << 19)) for _ in range(6)]
            ranges = [(max(0, c - (1 << 19)), min(1 << 32, c + (1 << 19))) for c in centres]
        for lo, hi in ranges:
            tasks.append({'bin': paths['exh'], 'cfg': cname, 'line': '%s c14f d%d d%d' % (cname, lo, hi)})
    for cname in small:
        tasks.append({'bin': paths['exh'], 'cfg': cname, 'line': '%s c14 d0 d%d' % (cname, 1 << core.Cfg(cname).bits)})
    nbulk, per = (1, 2000000) if tier != 'thorough' else (24, 4000000)
    for cname in big:
        for k in range(nbulk):
            tasks.append({'bin': paths['exh'], 'cfg': cname, 'bulk': True, 'line': '%s c14 d%d d%d d1' % (cname, rng.getrandbits(62) | 1, per)})
    evals = bad = 0
    with cf.ProcessPoolExecutor(max_workers=jobs) as ex:
        for t, line, err in ex.map(_exh_task, tasks, chunksize=1):
            if err:
                st['inconclusive'].append('float sweep failed on %s: %s' % (t['line'], err))
                continue
            o = core.parse_outcome(line.split('=', 1)[1])
            evals += o[0]
            st['events'] += o[0]
            st['requests'] += 1
            st['ops']['float-sweep-vs-primitive:' + t['cfg']] += o[0]
            if o[1]:
                bad += o[1]
                st['violations'] += o[1]
                runmod.add_violation(st, prop, core.Cfg(t['cfg']), 'rel', t['line'], 'bulk-vs-primitive', o[2].decode('utf8', 'replace'),
                                     'Rust `as` on the primitive of the same width (executed in-process)', '%d of the swept casts disagree with the primitive' % o[1])
    full = tier == 'thorough'
    st['exhaustive'].append('float -> integer vs Rust `as`: %s f32 bit patterns on 28 configurations of 8..128 bits' % ('ALL 2^32' if full else '18 slices of 2^20 of the'))
    st['classes']['f32 bit-pattern sweep against Rust `as`'] += len(tasks)
    st['nontrivial'].add(core.h64('floatsweep/%s' % tier))
    print('[%s] float sweeps vs Rust `as`: %d evaluations, %d mismatches, %.0fs' % (prop.PROP, evals, bad, time.time() - t0), flush=True)
    return {'evaluations': evals, 'mismatches': bad, 'all_f32_bit_patterns': full, 'wall_s': round(time.time() - t0, 1)}
