#!/usr/bin/env python3
"""setup_cmd: pre-build the quick-tier drivers (dev + release) offline, from files on disk only."""
import glob
import os
import sys
import time

HERE = os.path.dirname(os.path.abspath(__file__))
sys.path.insert(0, HERE)
import run  # noqa: E402


def main():
    bins = sorted(os.path.basename(p)[:-3] for p in glob.glob(os.path.join(run.HARNESS, 'src', 'bin', '*.rs')))
    t0 = time.time()
    for mode in ('dev', 'rel'):
        try:
            _, dt = run.build(bins, mode)
        except run.BuildError as e:
            print(e)
            return 1
        print('setup: built %d drivers (%s) in %.0fs' % (len(bins), mode, dt), flush=True)
    print('setup: done in %.0fs' % (time.time() - t0))
    return 0


if __name__ == '__main__':
    sys.exit(main())
