//! C11 driver: radix output. group "out": args a:T r:u32
use bnum_verif_harness::*;

/// std-only reference for widths <= 128 bits (no bnum code): the numeral of the value in radix 2, 8, 10 or 16
fn std_numeral(le: &[u8], signed: bool, r: u32) -> Option<String> {
    if le.len() > 16 { return None; }
    let mut b = [0u8; 16];
    let neg = signed && (le[le.len() - 1] & 0x80) != 0;
    if neg { b = [0xff; 16]; }
    b[..le.len()].copy_from_slice(le);
    let mag: u128 = if neg { (i128::from_le_bytes(b)).unsigned_abs() } else { u128::from_le_bytes(b) };
    let body = match r { 2 => format!("{:b}", mag), 8 => format!("{:o}", mag), 10 => format!("{}", mag), 16 => format!("{:x}", mag), _ => return None };
    Some(if neg { format!("-{}", body) } else { body })
}

macro_rules! body {
    ($kind:tt, $T:ty, $U:ty, $S:ty $(, $rest:tt)*) => {
        group_fn! { outs; args; { let a: $T = args.v(0); let r = args.u32(1); let signed = <$T>::MIN != <$T>::ZERO; };
            "to_str_radix" => a.to_str_radix(r),
            "to_radix_be" => a.to_radix_be(r),
            "to_radix_le" => a.to_radix_le(r),
            "str_roundtrip" => <$T>::from_str_radix(&a.to_str_radix(r), r),
            "be_roundtrip" => <$T>::from_radix_be(&a.to_radix_be(r), r),
            "le_roundtrip" => <$T>::from_radix_le(&a.to_radix_le(r), r),
            "calib_std_numeral" => std_numeral(&a.pat_to_le(), signed, r),
        }
        pub fn run(g: &str, args: &Args, out: &mut String) -> bool {
            match g { "out" => { outs(args, out); true } _ => false }
        }
    };
}

for_cfgs!(gen_mods; run_bnum, bnum, body, body);

fn run(cfg: &str, g: &str, args: &Args, out: &mut String) -> bool {
    run_bnum(cfg, g, args, out)
}

fn main() {
    main_loop("C11", run);
}
