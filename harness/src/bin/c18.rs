//! C18 driver: num_traits / num_integer implementations (through the traits, UFCS).
//! group "int": a b c ; group "root": a n ; group "prim": a s ; group "num": s(bytes) r
use bnum_verif_harness::*;
use num_integer::{Integer, Roots};
use num_traits::ops::euclid::{CheckedEuclid, Euclid};
use num_traits::ops::overflowing::{OverflowingAdd, OverflowingSub};
use num_traits::{Bounded, CheckedAdd, CheckedDiv, CheckedMul, CheckedNeg, CheckedRem, CheckedShl, CheckedShr, CheckedSub, MulAdd, MulAddAssign,
                 Num, One, Pow, PrimInt, Saturating, SaturatingAdd, SaturatingMul, SaturatingSub, Signed, WrappingAdd, WrappingMul, WrappingNeg,
                 WrappingShl, WrappingShr, WrappingSub, Zero};

macro_rules! int_list { ($f:ident, $T:ty) => { group_fn! { $f; args; { let a: $T = args.v(0); let b: $T = args.v(1); let c: $T = args.v(2); };
    "Integer::div_floor" => Integer::div_floor(&a, &b),
    "Integer::mod_floor" => Integer::mod_floor(&a, &b),
    "Integer::div_rem" => Integer::div_rem(&a, &b),
    "Integer::div_mod_floor" => Integer::div_mod_floor(&a, &b),
    "Integer::gcd" => Integer::gcd(&a, &b),
    "Integer::lcm" => Integer::lcm(&a, &b),
    "Integer::gcd_lcm" => Integer::gcd_lcm(&a, &b),
    "Integer::div_ceil" => Integer::div_ceil(&a, &b),
    "Integer::next_multiple_of" => Integer::next_multiple_of(&a, &b),
    "Integer::prev_multiple_of" => Integer::prev_multiple_of(&a, &b),
    "Integer::is_multiple_of" => Integer::is_multiple_of(&a, &b),
    "Integer::divides" => Integer::divides(&a, &b),
    "Integer::is_even" => Integer::is_even(&a),
    "Integer::is_odd" => Integer::is_odd(&a),
    "Euclid::div_euclid" => Euclid::div_euclid(&a, &b),
    "Euclid::rem_euclid" => Euclid::rem_euclid(&a, &b),
    "Euclid::div_rem_euclid" => Euclid::div_rem_euclid(&a, &b),
    "CheckedEuclid::checked_div_rem_euclid" => CheckedEuclid::checked_div_rem_euclid(&a, &b),
    "Zero::set_zero" => { let mut x = a; Zero::set_zero(&mut x); x },
    "One::set_one" => { let mut x = a; One::set_one(&mut x); x },
    "Integer::inc" => { let mut x = a; Integer::inc(&mut x); x },
    "Integer::dec" => { let mut x = a; Integer::dec(&mut x); x },
    "CheckedEuclid::checked_div_euclid" => CheckedEuclid::checked_div_euclid(&a, &b),
    "CheckedEuclid::checked_rem_euclid" => CheckedEuclid::checked_rem_euclid(&a, &b),
    "CheckedAdd" => CheckedAdd::checked_add(&a, &b), "CheckedSub" => CheckedSub::checked_sub(&a, &b), "CheckedMul" => CheckedMul::checked_mul(&a, &b),
    "CheckedDiv" => CheckedDiv::checked_div(&a, &b), "CheckedRem" => CheckedRem::checked_rem(&a, &b), "CheckedNeg" => CheckedNeg::checked_neg(&a),
    "WrappingAdd" => WrappingAdd::wrapping_add(&a, &b), "WrappingSub" => WrappingSub::wrapping_sub(&a, &b), "WrappingMul" => WrappingMul::wrapping_mul(&a, &b),
    "WrappingNeg" => WrappingNeg::wrapping_neg(&a),
    "SaturatingAdd" => SaturatingAdd::saturating_add(&a, &b), "SaturatingSub" => SaturatingSub::saturating_sub(&a, &b),
    "SaturatingMul" => SaturatingMul::saturating_mul(&a, &b),
    "Saturating::saturating_add" => Saturating::saturating_add(a, b), "Saturating::saturating_sub" => Saturating::saturating_sub(a, b),
    "OverflowingAdd" => OverflowingAdd::overflowing_add(&a, &b), "OverflowingSub" => OverflowingSub::overflowing_sub(&a, &b),
    "MulAdd" => MulAdd::mul_add(a, b, c),
    "MulAddAssign" => { let mut x = a; MulAddAssign::mul_add_assign(&mut x, b, c); x },
    "Bounded::min_value" => <$T as Bounded>::min_value(), "Bounded::max_value" => <$T as Bounded>::max_value(),
    "Zero::zero" => <$T as Zero>::zero(), "One::one" => <$T as One>::one(), "Zero::is_zero" => Zero::is_zero(&a), "One::is_one" => One::is_one(&a),
} } }

macro_rules! signed_list { ($f:ident, $T:ty) => { group_fn! { $f; args; { let a: $T = args.v(0); let b: $T = args.v(1); };
    "Signed::abs" => Signed::abs(&a), "Signed::abs_sub" => Signed::abs_sub(&a, &b), "Signed::signum" => Signed::signum(&a),
    "Signed::is_positive" => Signed::is_positive(&a), "Signed::is_negative" => Signed::is_negative(&a),
} } }

macro_rules! root_list { ($f:ident, $T:ty) => { group_fn! { $f; args; { let a: $T = args.v(0); let n = args.u32(1); };
    "Roots::sqrt" => Roots::sqrt(&a), "Roots::cbrt" => Roots::cbrt(&a), "Roots::nth_root" => Roots::nth_root(&a, n),
} } }

macro_rules! prim_list { ($f:ident, $T:ty) => { group_fn! { $f; args; { let a: $T = args.v(0); let s = args.u32(1); };
    "PrimInt::count_ones" => PrimInt::count_ones(a), "PrimInt::count_zeros" => PrimInt::count_zeros(a),
    "PrimInt::leading_zeros" => PrimInt::leading_zeros(a), "PrimInt::trailing_zeros" => PrimInt::trailing_zeros(a),
    "PrimInt::leading_ones" => PrimInt::leading_ones(a), "PrimInt::trailing_ones" => PrimInt::trailing_ones(a),
    "PrimInt::rotate_left" => PrimInt::rotate_left(a, s), "PrimInt::rotate_right" => PrimInt::rotate_right(a, s),
    "PrimInt::signed_shl" => PrimInt::signed_shl(a, s), "PrimInt::signed_shr" => PrimInt::signed_shr(a, s),
    "PrimInt::unsigned_shl" => PrimInt::unsigned_shl(a, s), "PrimInt::unsigned_shr" => PrimInt::unsigned_shr(a, s),
    "PrimInt::swap_bytes" => PrimInt::swap_bytes(a), "PrimInt::reverse_bits" => PrimInt::reverse_bits(a),
    "PrimInt::to_be" => PrimInt::to_be(a), "PrimInt::to_le" => PrimInt::to_le(a),
    "PrimInt::from_be" => <$T as PrimInt>::from_be(a), "PrimInt::from_le" => <$T as PrimInt>::from_le(a),
    "PrimInt::pow" => PrimInt::pow(a, s), "Pow::pow" => Pow::pow(a, s),
    "CheckedShl" => CheckedShl::checked_shl(&a, s), "CheckedShr" => CheckedShr::checked_shr(&a, s),
    "WrappingShl" => WrappingShl::wrapping_shl(&a, s), "WrappingShr" => WrappingShr::wrapping_shr(&a, s),
} } }

macro_rules! num_list { ($f:ident, $T:ty) => { group_fn! { $f; args; { let s = std::str::from_utf8(args.bytes(0)).unwrap_or("\u{fffd}"); let r = args.u32(1); };
    "Num::from_str_radix" => <$T as Num>::from_str_radix(s, r),
} } }

macro_rules! body_u {
    ($kind:tt, $T:ty, $U:ty, $S:ty $(, $rest:tt)*) => {
        int_list!(ints, $T); root_list!(roots, $T); prim_list!(prims, $T); num_list!(nums, $T);
        pub fn run(g: &str, args: &Args, out: &mut String) -> bool {
            match g { "int" => { ints(args, out); true } "root" => { roots(args, out); true } "prim" => { prims(args, out); true }
                      "num" => { nums(args, out); true } _ => false }
        }
    };
}
macro_rules! body_i {
    ($kind:tt, $T:ty, $U:ty, $S:ty $(, $rest:tt)*) => {
        int_list!(ints, $T); signed_list!(sgn, $T); root_list!(roots, $T); prim_list!(prims, $T); num_list!(nums, $T);
        pub fn run(g: &str, args: &Args, out: &mut String) -> bool {
            match g { "int" => { ints(args, out); sgn(args, out); true } "root" => { roots(args, out); true } "prim" => { prims(args, out); true }
                      "num" => { nums(args, out); true } _ => false }
        }
    };
}

for_cfgs!(gen_mods; run_bnum, bnum, body_u, body_i);
for_prims!(gen_mods; run_prim, prim, body_u, body_i);

fn run(cfg: &str, g: &str, args: &Args, out: &mut String) -> bool {
    run_bnum(cfg, g, args, out) || run_prim(cfg, g, args, out)
}

fn main() {
    main_loop("C18", run);
}
