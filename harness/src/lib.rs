//! Shared part of the driver: request parsing, bit-pattern <-> type conversion that does
//! not go through any bnum algorithm (only `from_digits` / `digits`), outcome encoding,
//! the catch_unwind wrapper and the table of instantiated configurations.
//!
//! The driver has no oracle and no generator: it reads one request per line
//!     <cfg> <group> <arg>...
//! (args: `x<hex>` = bit pattern, `d<decimal>` = number, `s<hex>` = byte string),
//! executes the named group of calls on the named configuration (and, at the five
//! primitive widths, the same calls on the Rust primitive), and prints one line
//!     name=outcome name=outcome ... [| name=outcome ...]
//! The Python monitor generates the requests and judges the outcomes.

pub use bnum;
pub use bnum::{BInt, BIntD16, BIntD32, BIntD8, BUint, BUintD16, BUintD32, BUintD8};
use std::io::{BufRead, Write};

pub mod table;

// ---------------------------------------------------------------- arguments

#[derive(Clone, Debug)]
pub enum Arg {
    /// bit pattern, little-endian bytes
    X(Vec<u8>),
    /// number: (fits i128?, fits u128?)
    D(Option<i128>, Option<u128>),
    /// byte string
    S(Vec<u8>),
}

pub struct Args(pub Vec<Arg>);

fn unhex(s: &str) -> Vec<u8> {
    // big-endian hex text -> big-endian bytes (odd length: implicit leading 0)
    let b = s.as_bytes();
    let mut v = Vec::with_capacity(b.len() / 2 + 1);
    let mut i = 0;
    let nib = |c: u8| -> u8 {
        match c {
            b'0'..=b'9' => c - b'0',
            b'a'..=b'f' => c - b'a' + 10,
            b'A'..=b'F' => c - b'A' + 10,
            _ => panic!("bad hex in request"),
        }
    };
    if b.len() % 2 == 1 {
        v.push(nib(b[0]));
        i = 1;
    }
    while i < b.len() {
        v.push(nib(b[i]) << 4 | nib(b[i + 1]));
        i += 2;
    }
    v
}

impl Args {
    pub fn parse(toks: &[&str]) -> Args {
        let mut v = Vec::new();
        for t in toks {
            let (k, rest) = t.split_at(1);
            v.push(match k {
                "x" => {
                    let mut be = unhex(rest);
                    be.reverse();
                    Arg::X(be)
                }
                "d" => Arg::D(rest.parse::<i128>().ok(), rest.parse::<u128>().ok()),
                "s" => Arg::S(unhex(rest)),
                _ => panic!("bad arg kind in request: {t}"),
            });
        }
        Args(v)
    }
    /// bit pattern argument as a value of type T (zero-extended / truncated to T's width)
    pub fn v<T: Pat>(&self, i: usize) -> T {
        match &self.0[i] {
            Arg::X(le) => T::pat_from_le(le),
            _ => panic!("arg {i} is not a pattern"),
        }
    }
    pub fn i128(&self, i: usize) -> i128 {
        match &self.0[i] {
            Arg::D(Some(v), _) => *v,
            _ => panic!("arg {i} is not an i128 number"),
        }
    }
    pub fn u128(&self, i: usize) -> u128 {
        match &self.0[i] {
            Arg::D(_, Some(v)) => *v,
            _ => panic!("arg {i} is not a u128 number"),
        }
    }
    pub fn u32(&self, i: usize) -> u32 {
        self.u128(i) as u32
    }
    pub fn usize(&self, i: usize) -> usize {
        self.u128(i) as usize
    }
    pub fn bool(&self, i: usize) -> bool {
        self.u128(i) != 0
    }
    pub fn bytes(&self, i: usize) -> &[u8] {
        match &self.0[i] {
            Arg::S(b) => b,
            _ => panic!("arg {i} is not a byte string"),
        }
    }
    pub fn len(&self) -> usize {
        self.0.len()
    }
}

// ---------------------------------------------------------------- patterns

/// Conversion between a little-endian byte pattern and a value, written without using any
/// bnum algorithm (only the digit array accessors).
pub trait Pat: Sized + Copy {
    const PAT_BYTES: usize;
    fn pat_from_le(le: &[u8]) -> Self;
    fn pat_to_le(&self) -> Vec<u8>;
    /// the low 128 bits of the pattern, zero-extended (allocation-free path for the exhaustive small-width sweeps)
    fn low_u128(&self) -> u128 {
        let le = self.pat_to_le();
        let mut v = 0u128;
        for (i, b) in le.iter().enumerate().take(16) { v |= (*b as u128) << (8 * i); }
        v
    }
    fn from_low_u128(v: u128) -> Self {
        Self::pat_from_le(&v.to_le_bytes())
    }
}

macro_rules! pat_prim {
    ($($t:ty),*) => {$(
        impl Pat for $t {
            const PAT_BYTES: usize = core::mem::size_of::<$t>();
            fn pat_from_le(le: &[u8]) -> Self {
                let mut b = [0u8; core::mem::size_of::<$t>()];
                for (i, x) in le.iter().enumerate() { if i < b.len() { b[i] = *x; } }
                <$t>::from_le_bytes(b)
            }
            fn pat_to_le(&self) -> Vec<u8> { self.to_le_bytes().to_vec() }
        }
    )*};
}
pat_prim!(u8, u16, u32, u64, u128, i8, i16, i32, i64, i128, usize, isize);

macro_rules! pat_bnum {
    ($BU:ident, $BI:ident, $D:ty) => {
        impl<const N: usize> Pat for $BU<N> {
            const PAT_BYTES: usize = N * core::mem::size_of::<$D>();
            fn pat_from_le(le: &[u8]) -> Self {
                const DB: usize = core::mem::size_of::<$D>();
                let mut digits = [0 as $D; N];
                for (i, x) in le.iter().enumerate() {
                    if i / DB < N {
                        digits[i / DB] |= (*x as $D) << (8 * (i % DB));
                    }
                }
                $BU::from_digits(digits)
            }
            fn pat_to_le(&self) -> Vec<u8> {
                let mut v = Vec::with_capacity(Self::PAT_BYTES);
                for d in self.digits().iter() {
                    v.extend_from_slice(&d.to_le_bytes());
                }
                v
            }
            fn low_u128(&self) -> u128 {
                const DBITS: usize = 8 * core::mem::size_of::<$D>();
                let mut v = 0u128;
                for (i, d) in self.digits().iter().enumerate() {
                    if i * DBITS >= 128 { break; }
                    v |= (*d as u128) << (i * DBITS);
                }
                v
            }
            fn from_low_u128(v: u128) -> Self {
                const DBITS: usize = 8 * core::mem::size_of::<$D>();
                let mut digits = [0 as $D; N];
                for i in 0..N {
                    if i * DBITS >= 128 { break; }
                    digits[i] = (v >> (i * DBITS)) as $D;
                }
                $BU::from_digits(digits)
            }
        }
        impl<const N: usize> Pat for $BI<N> {
            const PAT_BYTES: usize = N * core::mem::size_of::<$D>();
            fn pat_from_le(le: &[u8]) -> Self {
                $BI::from_bits(<$BU<N> as Pat>::pat_from_le(le))
            }
            fn pat_to_le(&self) -> Vec<u8> {
                self.to_bits().pat_to_le()
            }
            fn low_u128(&self) -> u128 { self.to_bits().low_u128() }
            fn from_low_u128(v: u128) -> Self { $BI::from_bits(<$BU<N> as Pat>::from_low_u128(v)) }
        }
    };
}
pat_bnum!(BUint, BInt, u64);
pat_bnum!(BUintD32, BIntD32, u32);
pat_bnum!(BUintD16, BIntD16, u16);
pat_bnum!(BUintD8, BIntD8, u8);

// ---------------------------------------------------------------- outcomes

const HEX: &[u8; 16] = b"0123456789abcdef";

pub fn push_hex_be(le: &[u8], s: &mut String) {
    for b in le.iter().rev() {
        s.push(HEX[(b >> 4) as usize] as char);
        s.push(HEX[(b & 15) as usize] as char);
    }
}
pub fn push_hex_seq(bytes: &[u8], s: &mut String) {
    for b in bytes.iter() {
        s.push(HEX[(b >> 4) as usize] as char);
        s.push(HEX[(b & 15) as usize] as char);
    }
}

/// Outcome encoding (see monitor/core.py `parse_outcome`).
pub trait Out {
    fn o(&self, s: &mut String);
}

macro_rules! out_prim {
    ($($t:ty),*) => {$(
        impl Out for $t {
            fn o(&self, s: &mut String) { s.push('d'); s.push_str(&self.to_string()); }
        }
    )*};
}
out_prim!(u8, u16, u32, u64, u128, i8, i16, i32, i64, i128, usize, isize);

macro_rules! out_bnum {
    ($($B:ident),*) => {$(
        impl<const N: usize> Out for $B<N> {
            fn o(&self, s: &mut String) { s.push('x'); push_hex_be(&self.pat_to_le(), s); }
        }
    )*};
}
out_bnum!(BUint, BInt, BUintD32, BIntD32, BUintD16, BIntD16, BUintD8, BIntD8);

impl Out for bool {
    fn o(&self, s: &mut String) {
        s.push(if *self { 'T' } else { 'F' });
    }
}
impl Out for () {
    fn o(&self, s: &mut String) {
        s.push('u');
    }
}
impl Out for char {
    fn o(&self, s: &mut String) {
        s.push('d');
        s.push_str(&(*self as u32).to_string());
    }
}
impl Out for core::cmp::Ordering {
    fn o(&self, s: &mut String) {
        s.push('o');
        s.push(match self {
            core::cmp::Ordering::Less => 'L',
            core::cmp::Ordering::Equal => 'E',
            core::cmp::Ordering::Greater => 'G',
        });
    }
}
impl<T: Out> Out for Option<T> {
    fn o(&self, s: &mut String) {
        match self {
            None => s.push('N'),
            Some(x) => {
                s.push('S');
                x.o(s)
            }
        }
    }
}
impl<T: Out, E: ErrKind> Out for Result<T, E> {
    fn o(&self, s: &mut String) {
        match self {
            Ok(x) => {
                s.push('K');
                x.o(s)
            }
            Err(e) => {
                s.push('E');
                s.push_str(e.kind_name());
                s.push(';');
            }
        }
    }
}
impl<A: Out, B: Out> Out for (A, B) {
    fn o(&self, s: &mut String) {
        s.push('(');
        self.0.o(s);
        s.push(',');
        self.1.o(s);
        s.push(')');
    }
}
impl<A: Out, B: Out, C: Out> Out for (A, B, C) {
    fn o(&self, s: &mut String) {
        s.push('(');
        self.0.o(s);
        s.push(',');
        self.1.o(s);
        s.push(',');
        self.2.o(s);
        s.push(')');
    }
}
impl Out for String {
    fn o(&self, s: &mut String) {
        s.push('s');
        push_hex_seq(self.as_bytes(), s);
        s.push(';');
    }
}
impl Out for Vec<u8> {
    fn o(&self, s: &mut String) {
        s.push('s');
        push_hex_seq(self, s);
        s.push(';');
    }
}
impl Out for f32 {
    fn o(&self, s: &mut String) {
        s.push_str(&format!("f{:08x};", self.to_bits()));
    }
}
impl Out for f64 {
    fn o(&self, s: &mut String) {
        s.push_str(&format!("g{:016x};", self.to_bits()));
    }
}

pub trait ErrKind {
    fn kind_name(&self) -> &'static str;
}
impl ErrKind for bnum::errors::ParseIntError {
    fn kind_name(&self) -> &'static str {
        use core::num::IntErrorKind::*;
        match self.kind() {
            Empty => "Empty",
            InvalidDigit => "InvalidDigit",
            PosOverflow => "PosOverflow",
            NegOverflow => "NegOverflow",
            Zero => "Zero",
            _ => "Other",
        }
    }
}
impl ErrKind for core::num::ParseIntError {
    fn kind_name(&self) -> &'static str {
        use core::num::IntErrorKind::*;
        match self.kind() {
            Empty => "Empty",
            InvalidDigit => "InvalidDigit",
            PosOverflow => "PosOverflow",
            NegOverflow => "NegOverflow",
            Zero => "Zero",
            _ => "Other",
        }
    }
}
impl ErrKind for bnum::errors::TryFromIntError {
    fn kind_name(&self) -> &'static str {
        "TryFrom"
    }
}
impl ErrKind for core::num::TryFromIntError {
    fn kind_name(&self) -> &'static str {
        "TryFrom"
    }
}
impl ErrKind for core::convert::Infallible {
    fn kind_name(&self) -> &'static str {
        "Infallible"
    }
}
impl ErrKind for core::char::CharTryFromError {
    fn kind_name(&self) -> &'static str {
        "TryFrom"
    }
}

/// Wrapper to print a byte as a hex pattern of a given bnum-like width is not needed;
/// values of primitive type used as *patterns* (digits) are printed through this wrapper.
pub struct Hex<T: Pat>(pub T);
impl<T: Pat> Out for Hex<T> {
    fn o(&self, s: &mut String) {
        s.push('x');
        push_hex_be(&self.0.pat_to_le(), s);
    }
}

// ---------------------------------------------------------------- group runner

/// Defines `fn $fname(args, out)` which evaluates each listed expression under its own
/// catch_unwind (one closure per function, selected by index, to keep compile time down)
/// and appends ` name=outcome` (outcome `P` for a panic).
#[macro_export]
macro_rules! group_fn {
    ($fname:ident ; $args:ident ; { $($setup:tt)* } ; $( $name:expr => $e:expr ),* $(,)? ) => {
        #[inline(never)]
        #[allow(unused_variables, unused_mut, unused_assignments, unused_unsafe, unreachable_code)]
        pub fn $fname($args: &$crate::Args, out: &mut String) {
            $($setup)*
            const NAMES: &[&str] = &[$($name),*];
            let mut idx = 0usize;
            while idx < NAMES.len() {
                let r = std::panic::catch_unwind(std::panic::AssertUnwindSafe(|| -> String {
                    let mut s = String::new();
                    let mut k = 0usize;
                    $(
                        if idx == k { $crate::Out::o(&($e), &mut s); return s; }
                        k += 1;
                    )*
                    s
                }));
                out.push(' ');
                out.push_str(NAMES[idx]);
                out.push('=');
                match r {
                    Ok(s) => out.push_str(&s),
                    Err(_) => out.push('P'),
                }
                idx += 1;
            }
        }
    };
}

/// Maps a bnum configuration name to its primitive twin ("u16x4" -> "pu64"), if any.
pub fn prim_twin(cfg: &str) -> Option<&'static str> {
    let signed = cfg.starts_with('i');
    let rest = &cfg[1..];
    let mut it = rest.split('x');
    let d: u32 = it.next()?.parse().ok()?;
    let n: u32 = it.next()?.parse().ok()?;
    Some(match (signed, d * n) {
        (false, 8) => "pu8",
        (false, 16) => "pu16",
        (false, 32) => "pu32",
        (false, 64) => "pu64",
        (false, 128) => "pu128",
        (true, 8) => "pi8",
        (true, 16) => "pi16",
        (true, 32) => "pi32",
        (true, 64) => "pi64",
        (true, 128) => "pi128",
        _ => return None,
    })
}

/// Main loop of every property binary. `run(cfg, group, args, out) -> handled?`
pub fn main_loop(prop: &str, run: fn(&str, &str, &Args, &mut String) -> bool) {
    std::panic::set_hook(Box::new(|_| {}));
    let argv: Vec<String> = std::env::args().collect();
    let stdin = std::io::stdin();
    let mut input: Box<dyn BufRead> = if argv.len() >= 3 && argv[1] == "--in" {
        Box::new(std::io::BufReader::new(std::fs::File::open(&argv[2]).expect("open --in file")))
    } else {
        Box::new(stdin.lock())
    };
    let stdout = std::io::stdout();
    let mut w = std::io::BufWriter::with_capacity(1 << 16, stdout.lock());
    writeln!(
        w,
        "#H prop={} dbg={} endian={} full={} nightly={}",
        prop,
        cfg!(debug_assertions) as u8,
        if cfg!(target_endian = "big") { "big" } else { "little" },
        cfg!(feature = "full") as u8,
        cfg!(feature = "nightly") as u8
    )
    .unwrap();
    let mut line = String::new();
    let mut out = String::new();
    loop {
        line.clear();
        if input.read_line(&mut line).unwrap() == 0 {
            break;
        }
        let toks: Vec<&str> = line.split_ascii_whitespace().collect();
        if toks.is_empty() || toks[0].starts_with('#') {
            continue;
        }
        if toks.len() < 2 {
            writeln!(w, "!bad-request").unwrap();
            continue;
        }
        let args = Args::parse(&toks[2..]);
        out.clear();
        if !run(toks[0], toks[1], &args, &mut out) {
            writeln!(w, "!unknown {} {}", toks[0], toks[1]).unwrap();
            continue;
        }
        if let Some(p) = prim_twin(toks[0]) {
            let mark = out.len();
            out.push_str(" |");
            if !run(p, toks[1], &args, &mut out) {
                out.truncate(mark);
            }
        }
        writeln!(w, "{}", out.trim_start()).unwrap();
    }
    w.flush().unwrap();
}

/// Generates one module per configuration (unsigned and signed) from the property's
/// `body_u!` / `body_i!` macros, plus the dispatcher `$fname(cfg, group, args, out)`.
/// Used as `for_cfgs!(gen_mods; run_bnum, bnum, body_u, body_i);`
#[macro_export]
macro_rules! gen_mods {
    ($fname:ident, $kind:tt, $body_u:ident, $body_i:ident ; $(($um:ident, $im:ident, $U:ty, $S:ty $(, $rest:tt)*)),* $(,)?) => {
        $(
            #[allow(non_snake_case, unused_imports)]
            pub mod $um { use super::*; $body_u!($kind, $U, $U, $S $(, $rest)*); }
            #[allow(non_snake_case, unused_imports)]
            pub mod $im { use super::*; $body_i!($kind, $S, $U, $S $(, $rest)*); }
        )*
        pub fn $fname(cfg: &str, g: &str, args: &$crate::Args, out: &mut String) -> bool {
            match cfg {
                $(
                    stringify!($um) => $um::run(g, args, out),
                    stringify!($im) => $im::run(g, args, out),
                )*
                _ => false,
            }
        }
    };
}

/// The type sub-list used for conversions between pairs of types (C09, C13, C16):
/// `for_cast_types!(cb; pre...)` invokes `cb! { pre... ; (name, Type), ... }`.
#[macro_export]
macro_rules! for_cast_types {
    ($cb:ident ; $($pre:tt)*) => {
        $cb! { $($pre)* ;
            (u8x1, BUintD8<1>), (i8x1, BIntD8<1>), (u8x3, BUintD8<3>), (i8x3, BIntD8<3>),
            (u8x5, BUintD8<5>), (i8x5, BIntD8<5>), (u8x17, BUintD8<17>), (i8x17, BIntD8<17>),
            (u16x1, BUintD16<1>), (i16x1, BIntD16<1>), (u16x3, BUintD16<3>), (i16x3, BIntD16<3>),
            (u16x5, BUintD16<5>), (i16x5, BIntD16<5>),
            (u32x2, BUintD32<2>), (i32x2, BIntD32<2>), (u32x3, BUintD32<3>), (i32x3, BIntD32<3>),
            (u32x5, BUintD32<5>), (i32x5, BIntD32<5>),
            (u64x1, BUint<1>), (i64x1, BInt<1>), (u64x2, BUint<2>), (i64x2, BInt<2>),
            (u64x3, BUint<3>), (i64x3, BInt<3>),
            (u64x5, BUint<5>), (i64x5, BInt<5>), (u32x10, BUintD32<10>), (i32x10, BIntD32<10>), (u8x33, BUintD8<33>), (i8x33, BIntD8<33>),
            (u8x260, BUintD8<260>), (i8x260, BIntD8<260>)
        }
    };
}
pub mod fmt_table;

/// bnum-typed shift amounts must come from the same digit family as the shifted type (C17).
pub trait AmtTypes {
    type UA;
    type IA;
    type UB;
    type IB;
}
macro_rules! amt_types {
    ($BU:ident, $BI:ident) => {
        impl<const N: usize> AmtTypes for $BU<N> { type UA = $BU<1>; type IA = $BI<2>; type UB = $BU<5>; type IB = $BI<1>; }
        impl<const N: usize> AmtTypes for $BI<N> { type UA = $BU<1>; type IA = $BI<2>; type UB = $BU<5>; type IB = $BI<1>; }
    };
}
amt_types!(BUint, BInt);
amt_types!(BUintD32, BIntD32);
amt_types!(BUintD16, BIntD16);
amt_types!(BUintD8, BIntD8);

/// Structural equality between a bnum outcome and the outcome of the same call on a primitive (exhaustive sweeps).
pub trait Same<R> {
    fn same(&self, r: &R) -> bool;
}
impl<A: Pat, B: Pat> Same<B> for A {
    fn same(&self, r: &B) -> bool {
        let bits = 8 * core::cmp::min(A::PAT_BYTES, B::PAT_BYTES);
        let m = if bits >= 128 { u128::MAX } else { (1u128 << bits) - 1 };
        A::PAT_BYTES == B::PAT_BYTES && (self.low_u128() & m) == (r.low_u128() & m)
    }
}
impl Same<bool> for bool {
    fn same(&self, r: &bool) -> bool { self == r }
}
impl Same<core::cmp::Ordering> for core::cmp::Ordering {
    fn same(&self, r: &core::cmp::Ordering) -> bool { self == r }
}
impl<A: Same<B>, B> Same<Option<B>> for Option<A> {
    fn same(&self, r: &Option<B>) -> bool {
        match (self, r) { (None, None) => true, (Some(a), Some(b)) => a.same(b), _ => false }
    }
}
impl<A: Same<C>, B: Same<D>, C, D> Same<(C, D)> for (A, B) {
    fn same(&self, r: &(C, D)) -> bool { self.0.same(&r.0) && self.1.same(&r.1) }
}
