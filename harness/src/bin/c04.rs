//! C04 driver: panic behaviour per build mode.
//! group "ar": args a:T b:T ; group "sh": args a:T s:number ; group "pw": args a:T e:u32 b:T
use bnum_verif_harness::*;

macro_rules! arith_list {
    ($f:ident, $T:ty) => {
        group_fn! { $f; args; { let a: $T = args.v(0); let b: $T = args.v(1); };
            "op_add" => a + b,
            "op_sub" => a - b,
            "op_mul" => a * b,
            "op_div" => a / b,
            "op_rem" => a % b,
            "op_add_rr" => &a + &b,
            "op_sub_rr" => &a - &b,
            "op_mul_rr" => &a * &b,
            "op_div_rr" => &a / &b,
            "op_rem_rr" => &a % &b,
            "op_add_assign" => { let mut x = a; x += b; x },
            "op_sub_assign" => { let mut x = a; x -= &b; x },
            "op_mul_assign" => { let mut x = a; x *= b; x },
            "op_div_assign" => { let mut x = a; x /= &b; x },
            "op_rem_assign" => { let mut x = a; x %= b; x },
            "div_euclid" => a.div_euclid(b),
            "rem_euclid" => a.rem_euclid(b),
            "strict_add" => a.strict_add(b),
            "strict_sub" => a.strict_sub(b),
            "strict_mul" => a.strict_mul(b),
            "strict_div" => a.strict_div(b),
            "strict_rem" => a.strict_rem(b),
            "strict_div_euclid" => a.strict_div_euclid(b),
            "strict_rem_euclid" => a.strict_rem_euclid(b),
            "strict_neg" => a.strict_neg(),
            "checked_add" => a.checked_add(b),
            "checked_sub" => a.checked_sub(b),
            "checked_mul" => a.checked_mul(b),
            "checked_div" => a.checked_div(b),
            "checked_rem" => a.checked_rem(b),
            "checked_div_euclid" => a.checked_div_euclid(b),
            "checked_rem_euclid" => a.checked_rem_euclid(b),
            "checked_neg" => a.checked_neg(),
            "wrapping_add" => a.wrapping_add(b),
            "wrapping_sub" => a.wrapping_sub(b),
            "wrapping_mul" => a.wrapping_mul(b),
            "wrapping_neg" => a.wrapping_neg(),
            "wrapping_div" => a.wrapping_div(b),
            "wrapping_rem" => a.wrapping_rem(b),
            "wrapping_div_euclid" => a.wrapping_div_euclid(b),
            "wrapping_rem_euclid" => a.wrapping_rem_euclid(b),
            "overflowing_add" => a.overflowing_add(b),
            "overflowing_sub" => a.overflowing_sub(b),
            "overflowing_mul" => a.overflowing_mul(b),
            "overflowing_neg" => a.overflowing_neg(),
            "overflowing_div" => a.overflowing_div(b),
            "overflowing_rem" => a.overflowing_rem(b),
            "overflowing_div_euclid" => a.overflowing_div_euclid(b),
            "overflowing_rem_euclid" => a.overflowing_rem_euclid(b),
            "saturating_add" => a.saturating_add(b),
            "saturating_sub" => a.saturating_sub(b),
            "saturating_mul" => a.saturating_mul(b),
            "saturating_div" => a.saturating_div(b),
        }
    };
}

macro_rules! shift_list {
    ($f:ident, $T:ty) => {
        group_fn! { $f; args; { let a: $T = args.v(0);
                let si: Option<i128> = match &args.0[1] { Arg::D(i, _) => *i, _ => None };
                let su: Option<u128> = match &args.0[1] { Arg::D(_, u) => *u, _ => None };
                macro_rules! amt { ($X:ty) => {{
                    let r: Option<$X> = match (si, su) {
                        (Some(i), _) => <$X>::try_from(i).ok(),
                        (None, Some(u)) => <$X>::try_from(u).ok(),
                        _ => None };
                    r }} }
            };
            "shl_u8" => amt!(u8).map(|s| a << s),
            "shl_u16" => amt!(u16).map(|s| a << s),
            "shl_u32" => amt!(u32).map(|s| a << s),
            "shl_u64" => amt!(u64).map(|s| a << s),
            "shl_u128" => amt!(u128).map(|s| a << s),
            "shl_usize" => amt!(usize).map(|s| a << s),
            "shl_i8" => amt!(i8).map(|s| a << s),
            "shl_i16" => amt!(i16).map(|s| a << s),
            "shl_i32" => amt!(i32).map(|s| a << s),
            "shl_i64" => amt!(i64).map(|s| a << s),
            "shl_i128" => amt!(i128).map(|s| a << s),
            "shl_isize" => amt!(isize).map(|s| a << s),
            "shr_u8" => amt!(u8).map(|s| a >> s),
            "shr_u16" => amt!(u16).map(|s| a >> s),
            "shr_u32" => amt!(u32).map(|s| a >> s),
            "shr_u64" => amt!(u64).map(|s| a >> s),
            "shr_u128" => amt!(u128).map(|s| a >> s),
            "shr_usize" => amt!(usize).map(|s| a >> s),
            "shr_i8" => amt!(i8).map(|s| a >> s),
            "shr_i16" => amt!(i16).map(|s| a >> s),
            "shr_i32" => amt!(i32).map(|s| a >> s),
            "shr_i64" => amt!(i64).map(|s| a >> s),
            "shr_i128" => amt!(i128).map(|s| a >> s),
            "shr_isize" => amt!(isize).map(|s| a >> s),
            "strict_shl" => amt!(u32).map(|s| a.strict_shl(s)),
            "strict_shr" => amt!(u32).map(|s| a.strict_shr(s)),
            "checked_shl" => amt!(u32).map(|s| a.checked_shl(s)),
            "checked_shr" => amt!(u32).map(|s| a.checked_shr(s)),
            "wrapping_shl" => amt!(u32).map(|s| a.wrapping_shl(s)),
            "wrapping_shr" => amt!(u32).map(|s| a.wrapping_shr(s)),
            "overflowing_shl" => amt!(u32).map(|s| a.overflowing_shl(s)),
            "overflowing_shr" => amt!(u32).map(|s| a.overflowing_shr(s)),
        }
    };
}

macro_rules! pow_list {
    ($f:ident, $T:ty) => {
        group_fn! { $f; args; { let a: $T = args.v(0); let e = args.u32(1); let b: $T = args.v(2); };
            "pow" => a.pow(e),
            "strict_pow" => a.strict_pow(e),
            "checked_pow" => a.checked_pow(e),
            "wrapping_pow" => a.wrapping_pow(e),
            "overflowing_pow" => a.overflowing_pow(e),
            "saturating_pow" => a.saturating_pow(e),
            "ilog" => a.ilog(b),
            "ilog2" => a.ilog2(),
            "ilog10" => a.ilog10(),
            "checked_ilog" => a.checked_ilog(b),
            "checked_ilog2" => a.checked_ilog2(),
            "checked_ilog10" => a.checked_ilog10(),
        }
    };
}

macro_rules! uns_list {
    ($f:ident, $T:ty, $S:ty) => {
        group_fn! { $f; args; { let a: $T = args.v(0); let b: $T = args.v(1); let bs: $S = args.v(1); };
            "next_power_of_two" => a.next_power_of_two(),
            "checked_next_power_of_two" => a.checked_next_power_of_two(),
            "next_multiple_of" => a.next_multiple_of(b),
            "checked_next_multiple_of" => a.checked_next_multiple_of(b),
            "checked_add_signed" => a.checked_add_signed(bs),
            "wrapping_add_signed" => a.wrapping_add_signed(bs),
            "overflowing_add_signed" => a.overflowing_add_signed(bs),
            "saturating_add_signed" => a.saturating_add_signed(bs),
            "div_ceil" => a.div_ceil(b),
        }
    };
}

macro_rules! sig_list {
    ($f:ident, $T:ty, $U:ty) => {
        group_fn! { $f; args; { let a: $T = args.v(0); let b: $T = args.v(1); let bu: $U = args.v(1); };
            "op_neg" => -a,
            "op_neg_r" => -&a,
            "abs" => a.abs(),
            "strict_abs" => a.strict_abs(),
            "checked_abs" => a.checked_abs(),
            "wrapping_abs" => a.wrapping_abs(),
            "overflowing_abs" => a.overflowing_abs(),
            "saturating_abs" => a.saturating_abs(),
            "saturating_neg" => a.saturating_neg(),
            "checked_add_unsigned" => a.checked_add_unsigned(bu),
            "checked_sub_unsigned" => a.checked_sub_unsigned(bu),
            "wrapping_add_unsigned" => a.wrapping_add_unsigned(bu),
            "wrapping_sub_unsigned" => a.wrapping_sub_unsigned(bu),
            "overflowing_add_unsigned" => a.overflowing_add_unsigned(bu),
            "overflowing_sub_unsigned" => a.overflowing_sub_unsigned(bu),
            "saturating_add_unsigned" => a.saturating_add_unsigned(bu),
            "saturating_sub_unsigned" => a.saturating_sub_unsigned(bu),
        }
    };
}

macro_rules! body_u {
    (bnum, $T:ty, $U:ty, $S:ty $(, $rest:tt)*) => {
        arith_list!(arith, $T); shift_list!(shifts, $T); pow_list!(pows, $T); uns_list!(uns, $T, $S);
        group_fn! { extra; args; { let a: $T = args.v(0); let b: $T = args.v(1); let bs: $S = args.v(1); };
            "strict_add_signed" => a.strict_add_signed(bs),
            "div_floor" => a.div_floor(b),
        }
        pub fn run(g: &str, args: &Args, out: &mut String) -> bool {
            match g {
                "ar" => { arith(args, out); uns(args, out); extra(args, out); true }
                "sh" => { shifts(args, out); true }
                "pw" => { pows(args, out); true }
                _ => false }
        }
    };
    (prim, $T:ty, $U:ty, $S:ty $(, $rest:tt)*) => {
        arith_list!(arith, $T); shift_list!(shifts, $T); pow_list!(pows, $T); uns_list!(uns, $T, $S);
        pub fn run(g: &str, args: &Args, out: &mut String) -> bool {
            match g {
                "ar" => { arith(args, out); uns(args, out); true }
                "sh" => { shifts(args, out); true }
                "pw" => { pows(args, out); true }
                _ => false }
        }
    };
}
macro_rules! body_i {
    (bnum, $T:ty, $U:ty, $S:ty $(, $rest:tt)*) => {
        arith_list!(arith, $T); shift_list!(shifts, $T); pow_list!(pows, $T); sig_list!(sig, $T, $U);
        group_fn! { extra; args; { let a: $T = args.v(0); let b: $T = args.v(1); let bu: $U = args.v(1); };
            "strict_add_unsigned" => a.strict_add_unsigned(bu),
            "strict_sub_unsigned" => a.strict_sub_unsigned(bu),
            "next_multiple_of" => a.next_multiple_of(b),
            "checked_next_multiple_of" => a.checked_next_multiple_of(b),
            "div_floor" => a.div_floor(b),
            "div_ceil" => a.div_ceil(b),
        }
        pub fn run(g: &str, args: &Args, out: &mut String) -> bool {
            match g {
                "ar" => { arith(args, out); sig(args, out); extra(args, out); true }
                "sh" => { shifts(args, out); true }
                "pw" => { pows(args, out); true }
                _ => false }
        }
    };
    (prim, $T:ty, $U:ty, $S:ty $(, $rest:tt)*) => {
        arith_list!(arith, $T); shift_list!(shifts, $T); pow_list!(pows, $T); sig_list!(sig, $T, $U);
        pub fn run(g: &str, args: &Args, out: &mut String) -> bool {
            match g {
                "ar" => { arith(args, out); sig(args, out); true }
                "sh" => { shifts(args, out); true }
                "pw" => { pows(args, out); true }
                _ => false }
        }
    };
}

for_cfgs!(gen_mods; run_bnum, bnum, body_u, body_i);
for_prims!(gen_mods; run_prim, prim, body_u, body_i);

fn run(cfg: &str, g: &str, args: &Args, out: &mut String) -> bool {
    run_bnum(cfg, g, args, out) || run_prim(cfg, g, args, out)
}

fn main() {
    main_loop("C04", run);
}
