//! Exhaustive sweeps over ALL operand pairs of the 16-bit (and 8-bit) configurations against the Rust primitive of the same width,
//! executed in-process (the primitive is the oracle; only total, non-panicking forms are used so no catch_unwind is needed per call).
//! request: <cfg> <group c01|c02|c03|c05|c06|c07|c08> d<a_lo> d<a_hi>   (a = first operand pattern, b sweeps the whole type)
//! response: exh=(evaluations, mismatches, first mismatch as text)
use bnum_verif_harness::*;

macro_rules! chk {
    ($ev:ident, $bad:ident, $first:ident, $name:literal, $a:expr, $b:expr, $x:expr, $y:expr) => {{
        $ev += 1;
        let x = $x;
        let y = $y;
        if !Same::same(&x, &y) {
            $bad += 1;
            if $first.is_empty() {
                let mut s = String::new();
                Out::o(&x, &mut s);
                let mut t = String::new();
                Out::o(&y, &mut t);
                $first = format!("{} a={:#x} b={:#x} bnum={} primitive={}", $name, $a, $b, s, t);
            }
        }
    }};
}

macro_rules! sweep_u {
    ($fname:ident, $T:ty, $S:ty, $P:ty, $PS:ty) => {
        pub fn $fname(group: &str, lo: u32, hi: u32) -> (u64, u64, String) {
            let (mut ev, mut bad, mut first) = (0u64, 0u64, String::new());
            let span: u32 = 1 << (8 * <$P as Pat>::PAT_BYTES);
            for ai in lo..hi {
                let pa = ai as $P;
                let a = <$T as Pat>::from_low_u128(ai as u128);
                let bmax = if group == "c05" { 2 * 8 * <$P as Pat>::PAT_BYTES as u32 + 2 } else if group == "c08" { span.min(4096) } else { span };
                for bi in 0..bmax {
                    let pb = bi as $P;
                    let b = <$T as Pat>::from_low_u128(bi as u128);
                    let pbs = pb as $PS;
                    let bs = <$S as Pat>::from_low_u128(bi as u128);
                    match group {
                        "c01" => {
                            chk!(ev, bad, first, "overflowing_add", ai, bi, a.overflowing_add(b), pa.overflowing_add(pb));
                            chk!(ev, bad, first, "overflowing_sub", ai, bi, a.overflowing_sub(b), pa.overflowing_sub(pb));
                            chk!(ev, bad, first, "checked_add", ai, bi, a.checked_add(b), pa.checked_add(pb));
                            chk!(ev, bad, first, "checked_sub", ai, bi, a.checked_sub(b), pa.checked_sub(pb));
                            chk!(ev, bad, first, "saturating_add", ai, bi, a.saturating_add(b), pa.saturating_add(pb));
                            chk!(ev, bad, first, "saturating_sub", ai, bi, a.saturating_sub(b), pa.saturating_sub(pb));
                            chk!(ev, bad, first, "wrapping_add", ai, bi, a.wrapping_add(b), pa.wrapping_add(pb));
                            chk!(ev, bad, first, "wrapping_sub", ai, bi, a.wrapping_sub(b), pa.wrapping_sub(pb));
                            chk!(ev, bad, first, "abs_diff", ai, bi, a.abs_diff(b), pa.abs_diff(pb));
                            chk!(ev, bad, first, "midpoint", ai, bi, a.midpoint(b), pa.midpoint(pb));
                            chk!(ev, bad, first, "overflowing_add_signed", ai, bi, a.overflowing_add_signed(bs), pa.overflowing_add_signed(pbs));
                            chk!(ev, bad, first, "checked_add_signed", ai, bi, a.checked_add_signed(bs), pa.checked_add_signed(pbs));
                            chk!(ev, bad, first, "saturating_add_signed", ai, bi, a.saturating_add_signed(bs), pa.saturating_add_signed(pbs));
                            chk!(ev, bad, first, "carrying_add(1)", ai, bi, a.carrying_add(b, true), pa.carrying_add(pb, true));
                            chk!(ev, bad, first, "borrowing_sub(1)", ai, bi, a.borrowing_sub(b, true), pa.borrowing_sub(pb, true));
                        }
                        "c02" => {
                            chk!(ev, bad, first, "overflowing_mul", ai, bi, a.overflowing_mul(b), pa.overflowing_mul(pb));
                            chk!(ev, bad, first, "checked_mul", ai, bi, a.checked_mul(b), pa.checked_mul(pb));
                            chk!(ev, bad, first, "saturating_mul", ai, bi, a.saturating_mul(b), pa.saturating_mul(pb));
                            chk!(ev, bad, first, "wrapping_mul", ai, bi, a.wrapping_mul(b), pa.wrapping_mul(pb));
                            chk!(ev, bad, first, "carrying_mul(a)", ai, bi, a.carrying_mul(b, a), pa.carrying_mul(pb, pa));
                            chk!(ev, bad, first, "carrying_mul(MAX)", ai, bi, a.carrying_mul(b, <$T>::MAX), pa.carrying_mul(pb, <$P>::MAX));
                        }
                        "c03" => {
                            chk!(ev, bad, first, "checked_div", ai, bi, a.checked_div(b), pa.checked_div(pb));
                            chk!(ev, bad, first, "checked_rem", ai, bi, a.checked_rem(b), pa.checked_rem(pb));
                            chk!(ev, bad, first, "checked_div_euclid", ai, bi, a.checked_div_euclid(b), pa.checked_div_euclid(pb));
                            chk!(ev, bad, first, "checked_rem_euclid", ai, bi, a.checked_rem_euclid(b), pa.checked_rem_euclid(pb));
                            chk!(ev, bad, first, "checked_next_multiple_of", ai, bi, a.checked_next_multiple_of(b), pa.checked_next_multiple_of(pb));
                            if bi != 0 {
                                chk!(ev, bad, first, "div_ceil", ai, bi, a.div_ceil(b), pa.div_ceil(pb));
                                chk!(ev, bad, first, "overflowing_div", ai, bi, a.overflowing_div(b), pa.overflowing_div(pb));
                                chk!(ev, bad, first, "overflowing_rem", ai, bi, a.overflowing_rem(b), pa.overflowing_rem(pb));
                                chk!(ev, bad, first, "saturating_div", ai, bi, a.saturating_div(b), pa.saturating_div(pb));
                            }
                        }
                        "c05" => {
                            let s = bi;
                            chk!(ev, bad, first, "checked_shl", ai, bi, a.checked_shl(s), pa.checked_shl(s));
                            chk!(ev, bad, first, "checked_shr", ai, bi, a.checked_shr(s), pa.checked_shr(s));
                            chk!(ev, bad, first, "overflowing_shl", ai, bi, a.overflowing_shl(s), pa.overflowing_shl(s));
                            chk!(ev, bad, first, "overflowing_shr", ai, bi, a.overflowing_shr(s), pa.overflowing_shr(s));
                            chk!(ev, bad, first, "unbounded_shl", ai, bi, a.unbounded_shl(s), pa.unbounded_shl(s));
                            chk!(ev, bad, first, "unbounded_shr", ai, bi, a.unbounded_shr(s), pa.unbounded_shr(s));
                            chk!(ev, bad, first, "rotate_left", ai, bi, a.rotate_left(s), pa.rotate_left(s));
                            chk!(ev, bad, first, "rotate_right", ai, bi, a.rotate_right(s), pa.rotate_right(s));
                        }
                        "c06" => {
                            chk!(ev, bad, first, "and", ai, bi, a & b, pa & pb);
                            chk!(ev, bad, first, "or", ai, bi, a | b, pa | pb);
                            chk!(ev, bad, first, "xor", ai, bi, a ^ b, pa ^ pb);
                            if bi < 4 {
                                chk!(ev, bad, first, "not", ai, bi, !a, !pa);
                                chk!(ev, bad, first, "count_ones", ai, bi, a.count_ones(), pa.count_ones());
                                chk!(ev, bad, first, "leading_zeros", ai, bi, a.leading_zeros(), pa.leading_zeros());
                                chk!(ev, bad, first, "trailing_zeros", ai, bi, a.trailing_zeros(), pa.trailing_zeros());
                                chk!(ev, bad, first, "leading_ones", ai, bi, a.leading_ones(), pa.leading_ones());
                                chk!(ev, bad, first, "trailing_ones", ai, bi, a.trailing_ones(), pa.trailing_ones());
                                chk!(ev, bad, first, "swap_bytes", ai, bi, a.swap_bytes(), pa.swap_bytes());
                                chk!(ev, bad, first, "reverse_bits", ai, bi, a.reverse_bits(), pa.reverse_bits());
                                chk!(ev, bad, first, "is_power_of_two", ai, bi, a.is_power_of_two(), pa.is_power_of_two());
                                chk!(ev, bad, first, "checked_next_power_of_two", ai, bi, a.checked_next_power_of_two(), pa.checked_next_power_of_two());
                            }
                        }
                        "c07" => {
                            chk!(ev, bad, first, "cmp", ai, bi, Ord::cmp(&a, &b), Ord::cmp(&pa, &pb));
                            chk!(ev, bad, first, "eq", ai, bi, a == b, pa == pb);
                            chk!(ev, bad, first, "lt", ai, bi, a < b, pa < pb);
                            chk!(ev, bad, first, "le", ai, bi, a <= b, pa <= pb);
                            chk!(ev, bad, first, "max", ai, bi, a.max(b), pa.max(pb));
                            chk!(ev, bad, first, "min", ai, bi, a.min(b), pa.min(pb));
                        }
                        "c08" => {
                            let e = bi & 31;
                            chk!(ev, bad, first, "overflowing_pow", ai, bi, a.overflowing_pow(e), pa.overflowing_pow(e));
                            chk!(ev, bad, first, "checked_pow", ai, bi, a.checked_pow(e), pa.checked_pow(e));
                            chk!(ev, bad, first, "saturating_pow", ai, bi, a.saturating_pow(e), pa.saturating_pow(e));
                            chk!(ev, bad, first, "checked_ilog", ai, bi, a.checked_ilog(b), pa.checked_ilog(pb));
                            if bi < 2 {
                                chk!(ev, bad, first, "checked_ilog2", ai, bi, a.checked_ilog2(), pa.checked_ilog2());
                                chk!(ev, bad, first, "checked_ilog10", ai, bi, a.checked_ilog10(), pa.checked_ilog10());
                            }
                        }
                        _ => {}
                    }
                }
            }
            (ev, bad, first)
        }
    };
}

macro_rules! sweep_i {
    ($fname:ident, $T:ty, $U:ty, $P:ty, $PU:ty) => {
        pub fn $fname(group: &str, lo: u32, hi: u32) -> (u64, u64, String) {
            let (mut ev, mut bad, mut first) = (0u64, 0u64, String::new());
            let span: u32 = 1 << (8 * <$P as Pat>::PAT_BYTES);
            for ai in lo..hi {
                let pa = ai as $PU as $P;
                let a = <$T as Pat>::from_low_u128(ai as u128);
                let bmax = if group == "c05" { 2 * 8 * <$P as Pat>::PAT_BYTES as u32 + 2 } else if group == "c08" { span.min(4096) } else { span };
                for bi in 0..bmax {
                    let pb = bi as $PU as $P;
                    let b = <$T as Pat>::from_low_u128(bi as u128);
                    let pbu = bi as $PU;
                    let bu = <$U as Pat>::from_low_u128(bi as u128);
                    match group {
                        "c01" => {
                            chk!(ev, bad, first, "overflowing_add", ai, bi, a.overflowing_add(b), pa.overflowing_add(pb));
                            chk!(ev, bad, first, "overflowing_sub", ai, bi, a.overflowing_sub(b), pa.overflowing_sub(pb));
                            chk!(ev, bad, first, "checked_add", ai, bi, a.checked_add(b), pa.checked_add(pb));
                            chk!(ev, bad, first, "checked_sub", ai, bi, a.checked_sub(b), pa.checked_sub(pb));
                            chk!(ev, bad, first, "saturating_add", ai, bi, a.saturating_add(b), pa.saturating_add(pb));
                            chk!(ev, bad, first, "saturating_sub", ai, bi, a.saturating_sub(b), pa.saturating_sub(pb));
                            chk!(ev, bad, first, "wrapping_add", ai, bi, a.wrapping_add(b), pa.wrapping_add(pb));
                            chk!(ev, bad, first, "wrapping_sub", ai, bi, a.wrapping_sub(b), pa.wrapping_sub(pb));
                            chk!(ev, bad, first, "abs_diff", ai, bi, a.abs_diff(b), pa.abs_diff(pb));
                            chk!(ev, bad, first, "midpoint", ai, bi, a.midpoint(b), pa.midpoint(pb));
                            chk!(ev, bad, first, "overflowing_add_unsigned", ai, bi, a.overflowing_add_unsigned(bu), pa.overflowing_add_unsigned(pbu));
                            chk!(ev, bad, first, "overflowing_sub_unsigned", ai, bi, a.overflowing_sub_unsigned(bu), pa.overflowing_sub_unsigned(pbu));
                            chk!(ev, bad, first, "saturating_add_unsigned", ai, bi, a.saturating_add_unsigned(bu), pa.saturating_add_unsigned(pbu));
                            chk!(ev, bad, first, "saturating_sub_unsigned", ai, bi, a.saturating_sub_unsigned(bu), pa.saturating_sub_unsigned(pbu));
                            if bi < 2 {
                                chk!(ev, bad, first, "overflowing_neg", ai, bi, a.overflowing_neg(), pa.overflowing_neg());
                                chk!(ev, bad, first, "overflowing_abs", ai, bi, a.overflowing_abs(), pa.overflowing_abs());
                                chk!(ev, bad, first, "saturating_neg", ai, bi, a.saturating_neg(), pa.saturating_neg());
                                chk!(ev, bad, first, "saturating_abs", ai, bi, a.saturating_abs(), pa.saturating_abs());
                                chk!(ev, bad, first, "unsigned_abs", ai, bi, a.unsigned_abs(), pa.unsigned_abs());
                            }
                        }
                        "c02" => {
                            chk!(ev, bad, first, "overflowing_mul", ai, bi, a.overflowing_mul(b), pa.overflowing_mul(pb));
                            chk!(ev, bad, first, "checked_mul", ai, bi, a.checked_mul(b), pa.checked_mul(pb));
                            chk!(ev, bad, first, "saturating_mul", ai, bi, a.saturating_mul(b), pa.saturating_mul(pb));
                            chk!(ev, bad, first, "wrapping_mul", ai, bi, a.wrapping_mul(b), pa.wrapping_mul(pb));
                        }
                        "c03" => {
                            chk!(ev, bad, first, "checked_div", ai, bi, a.checked_div(b), pa.checked_div(pb));
                            chk!(ev, bad, first, "checked_rem", ai, bi, a.checked_rem(b), pa.checked_rem(pb));
                            chk!(ev, bad, first, "checked_div_euclid", ai, bi, a.checked_div_euclid(b), pa.checked_div_euclid(pb));
                            chk!(ev, bad, first, "checked_rem_euclid", ai, bi, a.checked_rem_euclid(b), pa.checked_rem_euclid(pb));
                            if bi != 0 {
                                chk!(ev, bad, first, "overflowing_div", ai, bi, a.overflowing_div(b), pa.overflowing_div(pb));
                                chk!(ev, bad, first, "overflowing_rem", ai, bi, a.overflowing_rem(b), pa.overflowing_rem(pb));
                                chk!(ev, bad, first, "overflowing_div_euclid", ai, bi, a.overflowing_div_euclid(b), pa.overflowing_div_euclid(pb));
                                chk!(ev, bad, first, "overflowing_rem_euclid", ai, bi, a.overflowing_rem_euclid(b), pa.overflowing_rem_euclid(pb));
                                chk!(ev, bad, first, "saturating_div", ai, bi, a.saturating_div(b), pa.saturating_div(pb));
                                chk!(ev, bad, first, "wrapping_div", ai, bi, a.wrapping_div(b), pa.wrapping_div(pb));
                                chk!(ev, bad, first, "wrapping_rem", ai, bi, a.wrapping_rem(b), pa.wrapping_rem(pb));
                            }
                        }
                        "c05" => {
                            let s = bi;
                            chk!(ev, bad, first, "checked_shl", ai, bi, a.checked_shl(s), pa.checked_shl(s));
                            chk!(ev, bad, first, "checked_shr", ai, bi, a.checked_shr(s), pa.checked_shr(s));
                            chk!(ev, bad, first, "overflowing_shl", ai, bi, a.overflowing_shl(s), pa.overflowing_shl(s));
                            chk!(ev, bad, first, "overflowing_shr", ai, bi, a.overflowing_shr(s), pa.overflowing_shr(s));
                            chk!(ev, bad, first, "unbounded_shl", ai, bi, a.unbounded_shl(s), pa.unbounded_shl(s));
                            chk!(ev, bad, first, "unbounded_shr", ai, bi, a.unbounded_shr(s), pa.unbounded_shr(s));
                            chk!(ev, bad, first, "rotate_left", ai, bi, a.rotate_left(s), pa.rotate_left(s));
                            chk!(ev, bad, first, "rotate_right", ai, bi, a.rotate_right(s), pa.rotate_right(s));
                        }
                        "c06" => {
                            chk!(ev, bad, first, "and", ai, bi, a & b, pa & pb);
                            chk!(ev, bad, first, "or", ai, bi, a | b, pa | pb);
                            chk!(ev, bad, first, "xor", ai, bi, a ^ b, pa ^ pb);
                            if bi < 4 {
                                chk!(ev, bad, first, "not", ai, bi, !a, !pa);
                                chk!(ev, bad, first, "count_ones", ai, bi, a.count_ones(), pa.count_ones());
                                chk!(ev, bad, first, "leading_zeros", ai, bi, a.leading_zeros(), pa.leading_zeros());
                                chk!(ev, bad, first, "trailing_zeros", ai, bi, a.trailing_zeros(), pa.trailing_zeros());
                                chk!(ev, bad, first, "leading_ones", ai, bi, a.leading_ones(), pa.leading_ones());
                                chk!(ev, bad, first, "trailing_ones", ai, bi, a.trailing_ones(), pa.trailing_ones());
                                chk!(ev, bad, first, "swap_bytes", ai, bi, a.swap_bytes(), pa.swap_bytes());
                                chk!(ev, bad, first, "reverse_bits", ai, bi, a.reverse_bits(), pa.reverse_bits());
                            }
                        }
                        "c07" => {
                            chk!(ev, bad, first, "cmp", ai, bi, Ord::cmp(&a, &b), Ord::cmp(&pa, &pb));
                            chk!(ev, bad, first, "eq", ai, bi, a == b, pa == pb);
                            chk!(ev, bad, first, "lt", ai, bi, a < b, pa < pb);
                            chk!(ev, bad, first, "le", ai, bi, a <= b, pa <= pb);
                            chk!(ev, bad, first, "max", ai, bi, a.max(b), pa.max(pb));
                            chk!(ev, bad, first, "min", ai, bi, a.min(b), pa.min(pb));
                            if bi < 2 {
                                chk!(ev, bad, first, "signum", ai, bi, a.signum(), pa.signum());
                                chk!(ev, bad, first, "is_positive", ai, bi, a.is_positive(), pa.is_positive());
                                chk!(ev, bad, first, "is_negative", ai, bi, a.is_negative(), pa.is_negative());
                            }
                        }
                        "c08" => {
                            let e = bi & 31;
                            chk!(ev, bad, first, "overflowing_pow", ai, bi, a.overflowing_pow(e), pa.overflowing_pow(e));
                            chk!(ev, bad, first, "checked_pow", ai, bi, a.checked_pow(e), pa.checked_pow(e));
                            chk!(ev, bad, first, "saturating_pow", ai, bi, a.saturating_pow(e), pa.saturating_pow(e));
                            chk!(ev, bad, first, "checked_ilog", ai, bi, a.checked_ilog(b), pa.checked_ilog(pb));
                        }
                        _ => {}
                    }
                }
            }
            (ev, bad, first)
        }
    };
}

sweep_u!(u8x1, BUintD8<1>, BIntD8<1>, u8, i8);
sweep_u!(u8x2, BUintD8<2>, BIntD8<2>, u16, i16);
sweep_u!(u16x1, BUintD16<1>, BIntD16<1>, u16, i16);
sweep_i!(i8x1, BIntD8<1>, BUintD8<1>, i8, u8);
sweep_i!(i8x2, BIntD8<2>, BUintD8<2>, i16, u16);
sweep_i!(i16x1, BIntD16<1>, BUintD16<1>, i16, u16);

fn run(cfg: &str, g: &str, args: &Args, out: &mut String) -> bool {
    if cfg.starts_with('p') {
        return false;
    }
    let (lo, hi) = (args.u32(0), args.u32(1));
    let r = match cfg {
        "u8x1" => u8x1(g, lo, hi),
        "u8x2" => u8x2(g, lo, hi),
        "u16x1" => u16x1(g, lo, hi),
        "i8x1" => i8x1(g, lo, hi),
        "i8x2" => i8x2(g, lo, hi),
        "i16x1" => i16x1(g, lo, hi),
        _ => return false,
    };
    out.push_str(" exh=");
    Out::o(&(r.0, r.1, r.2), out);
    true
}

fn main() {
    main_loop("EXH", run);
}
