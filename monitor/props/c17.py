"""C17 — operator traits, assign forms, reference forms and iterator folds agree with the inherent methods."""
import core
import gen
from core import PANIC, ANY
from props.common import default_encode, default_decode
from props import c01, c02, c03, c04, c10

PROP = 'C17'
BIN = 'c17'
DENSE = {'quick': {8: 0, 16: 0, 32: 0, 64: 0}, 'thorough': {8: 0, 16: 0, 32: 0, 64: 0}}   # no dense pass: this driver takes ~2 s per type to build
TASK_REQS = 1500
RULE = ('every trait form (4 value/reference combinations, op-assign with value and reference, UFCS) of Add Sub Mul Div Rem BitAnd BitOr '
        'BitXor Neg Not, Shl/Shr with the 12 primitive amount types and 4 bnum amount types, Sum/Product over owned and borrowed '
        'iterators of length 0..8, Default, PartialEq/PartialOrd/Ord, FromStr and the digit-operand forms is executed next to the '
        'inherent method on identical operands under catch_unwind in both build modes; the monitor requires identical outcome '
        '(value or panic) within each family. Operands come from the C01/C02/C03 generators (half on the overflowing side), shift '
        'amounts include negative and > u32::MAX values. Non-trivial: the reference outcome is a panic, or the operands overflow/'
        'wrap, or the shift amount is out of range; distinct = distinct request lines')


def configs(tier):
    return core.cfg_names(full=(tier == 'thorough'))


def budget(cfg, tier):
    base = 1500 if tier == 'quick' else 15000
    if cfg.n >= 1024:
        return 20 if tier == 'quick' else 100
    if cfg.n >= 128:
        return base // 10
    return base


def encode(cfg, group, args):
    if group == 'bin':
        return [cfg.hex(args[0]), cfg.hex(args[1])]
    if group == 'sh':
        return [cfg.hex(args[0]), 'd%d' % args[1]]
    if group == 'fold':
        return [cfg.hex(v) for v in args]
    return [cfg.hex(args[0]), cfg.hex(args[1]), 'd%d' % args[2], 's' + bytes(args[3]).hex()]


def decode(cfg, group, toks):
    if group == 'bin':
        return tuple(cfg.val(int(t[1:], 16)) for t in toks[:2])
    if group == 'sh':
        return (cfg.val(int(toks[0][1:], 16)), int(toks[1][1:]))
    if group == 'fold':
        return tuple(cfg.val(int(t[1:], 16)) for t in toks)
    return (cfg.val(int(toks[0][1:], 16)), cfg.val(int(toks[1][1:], 16)), int(toks[2][1:]), bytes.fromhex(toks[3][1:]))


def requests(cfg, rng, n, tier, part, nparts, st):
    n1 = max(1, n // 8)
    for it in (c01.requests(cfg, rng, n1, tier, rng.randrange(64), 64, {'exhaustive': []}),
               c02.requests(cfg, rng, n1, tier, rng.randrange(64), 64, {'exhaustive': []}),
               c03.requests(cfg, rng, n1, tier, 0, 1, {'exhaustive': []}, exhaustive=False)):
        k = 0
        for g, a in it:
            if g == 'dd':
                continue
            yield 'bin', (a[0], a[1])
            k += 1
            if k >= n1:
                break
    for _ in range(n1 * 2):
        yield 'sh', (gen.value(cfg, rng), c04.shift_amount(cfg, rng))
    for _ in range(n1 * 2):
        k = rng.randrange(0, 9)
        r = rng.random()
        if r < 0.4:
            vals = [cfg.wrap(rng.choice((0, 1, -1, 2, 3, rng.randrange(-5, 100)))) for _ in range(k)]
        elif r < 0.7:
            vals = [gen.short(cfg, rng) for _ in range(k)]
        else:
            vals = [gen.value(cfg, rng) for _ in range(k)]
        yield 'fold', tuple(vals)
    if part == 0 and cfg.n >= 3 and cfg.bits <= 512:
        # long iterators: many elements with large low digits and zero top digits (the exact sum is representable); per-column
        # accumulators of a vectorised Sum would overflow where the left fold does not
        for cnt in ((300, 700) if cfg.dbits == 8 else (300,)) + ((66000,) if tier == 'thorough' and cfg.dbits == 16 and cfg.bits <= 96 else ()):
            lowbits = cfg.dbits * (cfg.n - 2)
            vals = [cfg.wrap(((1 << lowbits) - 1) - rng.getrandbits(max(1, lowbits - 4)) % (1 << max(1, lowbits - 4)) // 16) for _ in range(cnt)]
            yield 'fold', tuple(vals)
    for _ in range(n1):
        a = gen.value(cfg, rng)
        d = rng.choice((1, 2, cfg.B - 1, rng.randrange(1, cfg.B)))
        if not cfg.signed and a + d > cfg.max:
            a = cfg.max - d - rng.choice((0, 1, rng.getrandbits(8)))
            a = max(a, 0)
        v = gen.value(cfg, rng)
        s = str(v).encode()
        m = rng.random()
        if m < 0.15:
            s = b'+' + s
        elif m < 0.25:
            s = rng.choice((b'', b'-', b'+', b'12a', b' 1', b'0x10', str(cfg.max + 1).encode(), str(cfg.min - 1).encode(), b'00000' + s))
        elif m < 0.55:
            # the mutated numerals of the C10 generator (signs and other characters inserted at arbitrary positions, leading zeros, ...)
            s = c10.gen_string(cfg, rng)[0]
            try:
                s.decode('utf8')
            except UnicodeDecodeError:
                s = b'0+5'
        yield 'misc', (a, gen.value(cfg, rng), d, s)


class AnyDict(dict):
    def __contains__(self, k):
        return True

    def __getitem__(self, k):
        return ANY

    def get(self, k, d=None):
        return ANY


def model(cfg, ctx, group, args):
    cls = set()
    if group == 'bin':
        a, b = args
        if not cfg.fits(a + b) or not cfg.fits(a - b) or not cfg.fits(a * b):
            cls.add('an arithmetic operator is on its overflowing side (%s)' % ('panics' if ctx['dbg'] else 'wraps'))
        if b == 0:
            cls.add('zero divisor (all forms panic)')
        if cfg.signed and a == cfg.min:
            cls.add('neg of MIN')
    elif group == 'sh':
        a, s = args
        if s < 0:
            cls.add('negative shift amount (%s)' % ('dbg' if ctx['dbg'] else 'rel'))
        elif s >= cfg.bits:
            cls.add('shift amount >= BITS (%s)' % ('dbg' if ctx['dbg'] else 'rel'))
        else:
            cls.add('shift forms, amount in range' if s else 'plain:shift by zero')
    elif group == 'fold':
        tot = sum(args)
        prod = 1
        for v in args:
            prod *= v
        if len(args) == 0:
            cls.add('empty iterator (Sum = ZERO, Product = ONE)')
        elif not cfg.fits(tot) or not cfg.fits(prod):
            cls.add('fold overflows (%s)' % ('panics' if ctx['dbg'] else 'wraps'))
        else:
            cls.add('fold of %d elements' % len(args) if len(args) > 1 else 'plain:single element fold')
    else:
        cls.add('FromStr / digit-operand forms')

    def relations(seen):
        out = []
        fams = {}
        for name, o in seen.items():
            fam, _, form = name.partition('.')
            fams.setdefault(fam, {})[form] = o
        for fam, forms in fams.items():
            if fam in ('shl', 'shr'):
                continue
            ref_name = 'inherent' if 'inherent' in forms else ('fold' if 'fold' in forms else ('vv' if 'vv' in forms else sorted(forms)[0]))
            ref = forms[ref_name]
            if group == 'misc' and fam == 'add_digit' and not cfg.signed and args[0] + args[2] > cfg.max:
                continue  # Add<digit> overflow is outside the property's quantifier
            for form, o in forms.items():
                if form == ref_name:
                    continue
                out.append(('%s.%s == %s.%s' % (fam, form, fam, ref_name), o == ref, '%s.%s=%r but %s.%s=%r' % (fam, form, o, fam, ref_name, ref)))
        # amounts that are negative or above u32::MAX have no inherent twin (the inherent methods take a u32); for those the operator
        # semantics of C04 is the reference: with debug assertions every form whose amount type can hold the amount must panic
        if group == 'sh' and ctx['dbg'] and (args[1] < 0 or args[1] >= 2 ** 32):
            for fam, forms in fams.items():
                if fam.startswith(('shl_', 'shr_')) and not fam.startswith(('shl_bnum', 'shr_bnum')):
                    for form, o in forms.items():
                        if o is not None:
                            out.append(('%s.%s panics for an amount outside u32 (debug assertions)' % (fam, form), o == PANIC, '%s.%s=%r for amount %d' % (fam, form, o, args[1])))
        # shift families: every form equals the by-value form; and the by-value form equals the inherent when the amount is a u32
        for nm in ('shl', 'shr'):
            inh = fams.get(nm, {}).get('inherent')
            for fam, forms in fams.items():
                if not fam.startswith(nm + '_'):
                    continue
                if inh is not None and forms['vv'] is not None:
                    out.append(('%s.vv == %s.inherent' % (fam, nm), forms['vv'] == inh, '%s.vv=%r but %s.inherent=%r' % (fam, forms['vv'], nm, inh)))
        return out
    return AnyDict(), cls, relations


REQUIRED = ['an arithmetic operator is on its overflowing side (panics)', 'an arithmetic operator is on its overflowing side (wraps)',
            'zero divisor (all forms panic)', 'neg of MIN', 'negative shift amount (dbg)', 'negative shift amount (rel)',
            'shift amount >= BITS (dbg)', 'shift amount >= BITS (rel)', 'shift forms, amount in range',
            'empty iterator (Sum = ZERO, Product = ONE)', 'fold overflows (panics)', 'fold overflows (wraps)', 'FromStr / digit-operand forms']


def floors(st, tier):
    out = ['class %r never observed' % c for c in REQUIRED if st['classes'].get(c, 0) == 0]
    return out
