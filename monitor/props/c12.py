"""C12 — formatting traits print what Rust prints for a primitive of the same value."""
import json
import os
import core
import gen
from props.common import default_encode, default_decode

PROP = 'C12'
BIN = 'c12'
# dense digit-count pass (run.dense_table): width-dependent estimates (digit counts, exponents) make every width interesting here
DENSE = {'quick': {64: 128}, 'thorough': {8: 1024, 16: 512, 32: 256}}
DENSE_REQS = {'quick': 60, 'thorough': 60}   # ~7400 types in the thorough tier: the width-sensitive family plus a sample of 120 requests each
DENSE_MODES = ('dev',)
SIG = {'fmt': 'xdd'}
encode = default_encode(SIG)
decode = default_decode(SIG)
TASK_REQS = 3000
_t = json.load(open(os.path.join(os.path.dirname(__file__), 'fmt_specs.json')))
SPECS = _t['specs']
TRAITS = _t['traits']
RULE = ('requests (value, format spec index, width): all %d combinations of {no align, <, ^, >} x {default fill, *, 0, a non-ASCII fill} x '
        '+ x # x 0 x {no width, width} for all 8 traits; widths none, 0, 1, len-1, len, len+1, 40, 255, uniform 0..=255; values with '
        'interior zero digits and digits with leading zero nibbles/bits, zero, negative values, 2^k-1 / 2^k for every bit length k (a seed-dependent stride when the budget of the configuration is smaller than its bit width). The expected text comes from a '
        're-implementation of Formatter::pad_integral which is calibrated on every run against the primitive formatted with the '
        'same literal format string. Non-trivial: interior bnum digit that needs zero padding, negative value, width above the '
        'natural length with a sign-aware zero flag or explicit fill; distinct = distinct request lines') % len(SPECS)


def configs(tier):
    return core.cfg_names(full=(tier == 'thorough'))


def budget(cfg, tier):
    base = 4000 if tier == 'quick' else 40000
    if cfg.name in ('i8x3', 'u16x5', 'i64x2', 'u8x17'):
        return base * 4
    if cfg.n >= 1024:
        return 40 if tier == 'quick' else 200
    if cfg.n >= 128:
        return base // 20
    return base


def interior_value(cfg, rng):
    """digits that are zero, have leading zero nibbles/bits in the interior, or equal a power of ten (the decimal chunk base)"""
    D, N = cfg.dbits, cfg.n
    p = 0
    tens = [10 ** k for k in range(1, 20) if 10 ** k < (1 << D)]
    half = [t for t in tens if t < (1 << (D // 2))]
    for i in range(N):
        r = rng.random()
        if r < 0.12:
            # the largest powers of ten in a whole digit and in half a digit (both are used as division chunk bases)
            d = rng.choice(tens[-2:] + half[-2:]) + rng.choice((-1, 0, 0, 1))
        elif r < 0.3:
            d = 0
        elif r < 0.38:
            d = (1 << D) - 1 - rng.choice((0, 0, 0, 1))
        elif r < 0.55:
            d = rng.getrandbits(rng.randrange(1, D))  # leading zero bits
        elif r < 0.7:
            d = 1
        else:
            d = rng.getrandbits(D)
        p |= d << (D * i)
    return cfg.val(p)


def natural_len(cfg, v, ti):
    p = cfg.pat(v)
    if ti in (0, 1):
        return len(str(abs(v))) + (v < 0)
    if ti == 2:
        return max(1, p.bit_length())
    if ti == 3:
        return len('%o' % p)
    if ti in (4, 5):
        return len('%x' % p)
    return len(str(abs(v))) + 3


def requests(cfg, rng, n, tier, part, nparts, st):
    ns = len(SPECS)
    base = rng.randrange(ns)
    # bounded by the budget of the configuration: every bit length when affordable, otherwise a seed-dependent stride
    stride = max(1, -(-(cfg.bits + 1) // max(256, 2 * n * nparts)))
    ks = list(range(rng.randrange(stride), cfg.bits + 1, stride))
    lo, hi = (len(ks) * part // nparts, len(ks) * (part + 1) // nparts)
    for k in ks[lo:hi]:
        for v in ((1 << k) - 1, 1 << k):
            if v <= cfg.mask:
                yield 'fmt', (cfg.val(v), rng.randrange(ns), rng.choice((0, 1, 40, 255)))
    if cfg.name in ('i8x3', 'u16x5', 'i64x2', 'u8x17'):
        # every format spec x every width 0..=255 on a zero, a negative (or large) and a mid-size value; thorough: all, quick: 1/8 of the widths
        vals = (0, cfg.wrap(-12345), cfg.wrap(0x1002003))
        ws = list(range(256)) if tier == 'thorough' else list(range(rng.randrange(8), 256, 8))
        allc = [(v, i, w) for v in vals for i in range(ns) for w in ws]
        lo_, hi_ = (len(allc) * part // nparts, len(allc) * (part + 1) // nparts)
        for c in allc[lo_:hi_]:
            yield 'fmt', c
        if tier == 'thorough':
            st['exhaustive'].append('%s: all %d format specs x all widths 0..=255 x 3 values' % (cfg.name, ns))
    for k in range(n):
        r = rng.random()
        if r < 0.05 and cfg.n >= 2:
            from props.c11 import chunk_multiple
            v = cfg.val(chunk_multiple(cfg, rng, 10))
        elif r < 0.10:
            from props.c11 import chunk_digit_value
            v = cfg.val(chunk_digit_value(cfg, rng, 10))
        elif r < 0.16:
            from props.c11 import sparse_in_radix
            v = cfg.val(sparse_in_radix(cfg, rng, 10))
            if cfg.signed and rng.random() < 0.3:
                v = cfg.wrap(-v)
        elif r < 0.4:
            v = interior_value(cfg, rng)
        elif r < 0.5:
            v = rng.choice((0, 1, -1, cfg.min, cfg.max, 10, 100, 1000, -10, 10 ** rng.randrange(0, max(1, int(cfg.bits * 0.3)))))
            v = cfg.wrap(v)
        else:
            v = gen.value(cfg, rng)
        i = (base + k) % ns   # every spec is cycled through
        nl = natural_len(cfg, v, rng.randrange(8))
        w = rng.choice((0, 1, max(0, nl - 1), nl, nl + 1, nl + 2, nl + 3, 40, 255, rng.randrange(256)))
        yield 'fmt', (v, i, min(w, 255) if cfg.bits <= 512 or rng.random() < 0.5 else nl + rng.randrange(5))


def pad_integral(nonneg, prefix, buf, spec, w):
    sign = '' if nonneg else '-'
    if nonneg and spec['plus']:
        sign = '+'
    pre = prefix if spec['alt'] else ''
    total = len(sign) + len(pre) + len(buf)
    if not spec['width'] or w <= total:
        return sign + pre + buf
    if spec['zero']:
        return sign + pre + '0' * (w - total) + buf
    fill = spec['fill'] or ' '
    al = spec['align'] or '>'
    n = w - total
    text = sign + pre + buf
    if al == '<':
        return text + fill * n
    if al == '>':
        return fill * n + text
    return fill * (n // 2) + text + fill * (n - n // 2)


def exp_form(mag, e):
    s = str(mag)
    k = len(s) - 1
    m = s.rstrip('0') or '0'
    if mag == 0:
        return '0' + e + '0'
    if len(m) == 1:
        return m + e + str(k)
    return m[0] + '.' + m[1:] + e + str(k)


def model(cfg, ctx, group, args):
    v, i, w = args
    spec = SPECS[i]
    p = cfg.pat(v)
    exp = {}
    cls = set()
    dec = str(abs(v))
    exp['Display'] = pad_integral(v >= 0, '', dec, spec, w).encode()
    exp['Debug'] = exp['Display']
    exp['Binary'] = pad_integral(True, '0b', format(p, 'b'), spec, w).encode()
    exp['Octal'] = pad_integral(True, '0o', format(p, 'o'), spec, w).encode()
    exp['LowerHex'] = pad_integral(True, '0x', format(p, 'x'), spec, w).encode()
    exp['UpperHex'] = pad_integral(True, '0x', format(p, 'X'), spec, w).encode()
    exp['LowerExp'] = pad_integral(v >= 0, '', exp_form(abs(v), 'e'), spec, w).encode()
    exp['UpperExp'] = pad_integral(v >= 0, '', exp_form(abs(v), 'E'), spec, w).encode()
    d = '@d%d' % cfg.dbits
    ds = cfg.digits(p)
    top = max((k for k in range(cfg.n) if ds[k]), default=-1)
    if top >= 1:
        if any(ds[k] == 0 for k in range(top)):
            cls.add('interior zero digit' + d)
        if any(0 < ds[k] < (cfg.B >> 4) for k in range(top)):
            cls.add('interior digit with leading zero nibbles' + d)
    if v < 0:
        cls.add('negative value')
    if v == 0:
        cls.add('zero')
    if spec['width']:
        nl = len(dec) + (v < 0)
        if w > nl:
            cls.add('width above natural length' + (', zero flag' if spec['zero'] else (', explicit fill' if spec['fill'] else '')))
        elif w == nl:
            cls.add('width equal to natural length')
    if spec['alt']:
        cls.add('plain:alternate flag')
    if not cls:
        cls.add('plain')
    return exp, cls


REQUIRED = ['negative value', 'zero', 'width above natural length', 'width above natural length, zero flag',
            'width above natural length, explicit fill', 'width equal to natural length'] + \
    ['%s@d%d' % (c, d) for d in (8, 16, 32, 64) for c in ('interior zero digit', 'interior digit with leading zero nibbles')]


def floors(st, tier):
    return ['class %r never observed' % c for c in REQUIRED if st['classes'].get(c, 0) == 0]


def dense_requests(cfg, rng, n, st):
    """dense digit-count pass: values with the maximal number of decimal / octal / binary / hex digits (and one fewer) through the plain spec,
    the '#0width' spec and a few random specs of all eight traits"""
    ns = len(SPECS)
    plain = 0
    full = next((i for i, s in enumerate(SPECS) if s['alt'] and s['zero'] and s['width'] and not s['plus'] and not s['align']), 1)
    dcap = len(str(cfg.mask))
    vals = [cfg.max, cfg.min if cfg.signed else cfg.max // 3, cfg.val((10 ** (dcap - 1)) & cfg.mask), cfg.val((10 ** (dcap - 1) - 1) & cfg.mask),
            cfg.val(cfg.mask), cfg.val((8 ** ((cfg.bits - 1) // 3)) & cfg.mask), cfg.wrap(-(10 ** (len(str(cfg.max)) - 1)))]
    for v in vals:
        nl = natural_len(cfg, v, 0)
        yield 'fmt', (v, plain, 0)
        yield 'fmt', (v, full, nl + rng.choice((0, 1, 2, 5)))
        yield 'fmt', (v, rng.randrange(ns), rng.choice((0, nl, nl + 3)))
