"""C19 — num_traits numeric conversions return Some exactly for representable values."""
import core
import gen
from core import ANY, Some
from props.common import default_encode, default_decode
from props.c09 import PRIMS, prim_cfg
from props.c14 import F32, F64, int_to_float, gen_float, gen_int

PROP = 'C19'
BIN = 'c19'
DENSE = {'quick': {8: 16, 16: 16, 32: 16, 64: 16}, 'thorough': {8: 64, 16: 64, 32: 64, 64: 64}}   # bounded by the build time of this driver
SIG = {'fp': 'd', 'ff': 'dd', 'tp': 'x'}
encode = default_encode(SIG)
decode = default_decode(SIG)
TASK_REQS = 3000
RULE = ('FromPrimitive::from_{u8..u128, i8..i128, usize, isize} on values at the boundaries of the primitive and of the target '
        '(including targets narrower than the source: one source digit beyond N non-zero), from_f32/from_f64 on the float families of '
        'C14, ToPrimitive::to_* on values at the boundaries of every primitive, AsPrimitive next to the As cast. The same calls on '
        'the primitives (num_traits own impls) calibrate the model. Non-trivial: value within 1 of a representability boundary, '
        'negative, non-integer / special float; distinct = distinct request lines')


def configs(tier):
    return core.cfg_names(full=(tier == 'thorough'))


def budget(cfg, tier):
    base = 4000 if tier == 'quick' else 40000
    if cfg.n >= 1024:
        return base // 8
    return base


def requests(cfg, rng, n, tier, part, nparts, st):
    for _ in range(n // 3):
        r = rng.random()
        if r < 0.35:
            p = prim_cfg(rng.choice(PRIMS)[0])
            d = rng.choice((p.min, p.max, p.min + 1, p.max - 1, 0, -1, 1))
        elif r < 0.7:
            d = rng.choice((cfg.max, cfg.max + 1, cfg.min, cfg.min - 1, cfg.max - 1, cfg.min + 1, cfg.mask, cfg.mask + 1, cfg.mod >> 1,
                            # one source digit beyond N non-zero
                            (1 << (cfg.bits + rng.randrange(0, 64))) | rng.getrandbits(min(cfg.bits, 128)),
                            -((1 << (cfg.bits + rng.randrange(0, 64))) | rng.getrandbits(min(cfg.bits, 128)))))
        else:
            d = rng.choice((1, -1)) * rng.getrandbits(rng.choice((7, 8, 15, 16, 31, 32, 63, 64, 127, 128)))
        d = max(-(1 << 127), min((1 << 128) - 1, d))
        yield 'fp', (d,)
    for _ in range(n // 3):
        yield 'ff', (gen_float(cfg, rng, F32), gen_float(cfg, rng, F64))
    for _ in range(n - 2 * (n // 3)):
        r = rng.random()
        if r < 0.5:
            p = prim_cfg(rng.choice(PRIMS)[0])
            v = rng.choice((p.max, p.max + 1, p.min, p.min - 1, p.max - 1, p.mod, p.mod + 1, -p.mod))
            v = cfg.wrap(v) if rng.random() < 0.5 else cfg.clamp(v)
        elif r < 0.7:
            v = gen_int(cfg, rng)
        else:
            v = gen.value(cfg, rng)
        yield 'tp', (v,)


def float_trunc(bits, fmt):
    """(kind, truncated integer value, is_negative_nonzero, is_fractional)"""
    ebits, mbits, name = fmt
    bias = (1 << (ebits - 1)) - 1
    sign = bits >> (ebits + mbits)
    ex = (bits >> mbits) & ((1 << ebits) - 1)
    frac = bits & ((1 << mbits) - 1)
    if ex == (1 << ebits) - 1:
        return ('nan' if frac else 'inf'), None, bool(sign), False
    if ex == 0:
        m, e = frac, 1 - bias - mbits
    else:
        m, e = frac | (1 << mbits), ex - bias - mbits
    t = (m << e) if e >= 0 else (m >> -e)
    fractional = e < 0 and (m & ((1 << -e) - 1)) != 0
    return 'finite', (-t if sign else t), bool(sign and m), fractional


def model(cfg, ctx, group, args):
    exp = {}
    cls = set()
    if group == 'fp':
        (d,) = args
        for pn, sg, bits in PRIMS:
            p = prim_cfg(pn)
            exp['from_' + pn] = (Some(Some(d)) if cfg.fits(d) else Some(None)) if p.fits(d) else None
        for pn in ('u8', 'i8', 'u64', 'i64', 'u128', 'i128', 'i16', 'u32'):
            w = cfg.wrap(d)
            exp['asprim_from_' + pn] = Some((w, w)) if prim_cfg(pn).fits(d) else None
        if d in (cfg.max, cfg.max + 1, cfg.min, cfg.min - 1):
            cls.add('source at the target\'s representability boundary')
        if not cfg.fits(d) and abs(d).bit_length() > cfg.bits:
            cls.add('source has a non-zero digit beyond the target\'s N digits')
        if d < 0:
            cls.add('negative source')
        if not cls:
            cls.add('plain')
    elif group == 'ff':
        for nm, bits, fmt in (('from_f32', args[0], F32), ('from_f64', args[1], F64)):
            kind, t, negnz, fractional = float_trunc(bits, fmt)
            if kind != 'finite':
                exp[nm] = None
                cls.add('%s: %s -> None' % (fmt[2], kind))
            elif not cfg.signed and negnz:
                if t == 0:
                    exp[nm] = ANY       # negative float in (-1, 0) to an unsigned target: the property leaves it open
                    cls.add('%s: negative fraction to unsigned (not judged)' % fmt[2])
                else:
                    exp[nm] = None
                    cls.add('%s: negative to unsigned -> None' % fmt[2])
            elif cfg.fits(t):
                exp[nm] = Some(t)
                if t in (cfg.max, cfg.min) and t:
                    cls.add('%s: exactly at the bound' % fmt[2])
                elif fractional:
                    cls.add('%s: fractional, truncated' % fmt[2])
                else:
                    cls.add('plain:%s integer-valued in range' % fmt[2])
            else:
                exp[nm] = None
                cls.add('%s: out of range -> None' % fmt[2])
                if abs(t) in (cfg.max + 1, -cfg.min + 1, cfg.mod):
                    cls.add('%s: one past the bound' % fmt[2])
    else:
        (a,) = args
        for pn, sg, bits in PRIMS:
            p = prim_cfg(pn)
            exp['to_' + pn] = Some(a) if p.fits(a) else None
            w = p.wrap(a)
            exp['as_' + pn] = (w, w)
            if a in (p.max, p.max + 1, p.min, p.min - 1):
                cls.add('value at the boundary of a primitive')
        f32 = ('f32', int_to_float(a, F32))
        f64 = ('f64', int_to_float(a, F64))
        exp['to_f32'] = Some(f32)
        exp['to_f64'] = Some(f64)
        exp['as_f32'] = (f32, f32)
        exp['as_f64'] = (f64, f64)
        ub = core.Cfg('u%dx5' % cfg.dbits)
        ia = core.Cfg('i%dx2' % cfg.dbits)
        exp['as_bnum_ub'] = (ub.wrap(a), ub.wrap(a))
        exp['as_bnum_ia'] = (ia.wrap(a), ia.wrap(a))
        if a < 0:
            cls.add('negative value')
        if abs(a).bit_length() > 53:
            cls.add('value needs rounding for f64')
        if not cls:
            cls.add('plain')
    return exp, cls


REQUIRED = ["source at the target's representability boundary", "source has a non-zero digit beyond the target's N digits", 'negative source',
            'value at the boundary of a primitive', 'negative value', 'value needs rounding for f64'] + \
    ['%s: %s' % (f, k) for f in ('f32', 'f64') for k in ('nan -> None', 'inf -> None', 'negative to unsigned -> None', 'exactly at the bound',
                                                       'fractional, truncated', 'out of range -> None', 'one past the bound',
                                                       'negative fraction to unsigned (not judged)')]


def floors(st, tier):
    return ['class %r never observed' % c for c in REQUIRED if st['classes'].get(c, 0) == 0]
