//! The instantiated configurations (DESIGN.md §4). `for_cfgs!(cb; pre...)` invokes
//! `cb! { pre... ; (umod, imod, UnsignedType, SignedType, digit, N), ... }`.

#[cfg(not(feature = "full"))]
#[macro_export]
macro_rules! for_cfgs {
    ($cb:ident ; $($pre:tt)*) => {
        $cb! { $($pre)* ;
            (u8x1, i8x1, BUintD8<1>, BIntD8<1>, u8, 1),
            (u8x2, i8x2, BUintD8<2>, BIntD8<2>, u8, 2),
            (u8x3, i8x3, BUintD8<3>, BIntD8<3>, u8, 3),
            (u8x5, i8x5, BUintD8<5>, BIntD8<5>, u8, 5),
            (u8x8, i8x8, BUintD8<8>, BIntD8<8>, u8, 8),
            (u8x16, i8x16, BUintD8<16>, BIntD8<16>, u8, 16),
            (u8x17, i8x17, BUintD8<17>, BIntD8<17>, u8, 17),
            (u16x1, i16x1, BUintD16<1>, BIntD16<1>, u16, 1),
            (u16x3, i16x3, BUintD16<3>, BIntD16<3>, u16, 3),
            (u16x4, i16x4, BUintD16<4>, BIntD16<4>, u16, 4),
            (u16x5, i16x5, BUintD16<5>, BIntD16<5>, u16, 5),
            (u16x8, i16x8, BUintD16<8>, BIntD16<8>, u16, 8),
            (u32x1, i32x1, BUintD32<1>, BIntD32<1>, u32, 1),
            (u32x2, i32x2, BUintD32<2>, BIntD32<2>, u32, 2),
            (u32x3, i32x3, BUintD32<3>, BIntD32<3>, u32, 3),
            (u32x4, i32x4, BUintD32<4>, BIntD32<4>, u32, 4),
            (u32x6, i32x6, BUintD32<6>, BIntD32<6>, u32, 6),
            (u64x1, i64x1, BUint<1>, BInt<1>, u64, 1),
            (u64x2, i64x2, BUint<2>, BInt<2>, u64, 2),
            (u64x3, i64x3, BUint<3>, BInt<3>, u64, 3),
            (u64x4, i64x4, BUint<4>, BInt<4>, u64, 4),
            (u64x5, i64x5, BUint<5>, BInt<5>, u64, 5),
            (u64x128, i64x128, BUint<128>, BInt<128>, u64, 128)
        }
    };
}

#[cfg(feature = "full")]
#[macro_export]
macro_rules! for_cfgs {
    ($cb:ident ; $($pre:tt)*) => {
        $cb! { $($pre)* ;
            (u8x1, i8x1, BUintD8<1>, BIntD8<1>, u8, 1),
            (u8x2, i8x2, BUintD8<2>, BIntD8<2>, u8, 2),
            (u8x3, i8x3, BUintD8<3>, BIntD8<3>, u8, 3),
            (u8x4, i8x4, BUintD8<4>, BIntD8<4>, u8, 4),
            (u8x5, i8x5, BUintD8<5>, BIntD8<5>, u8, 5),
            (u8x6, i8x6, BUintD8<6>, BIntD8<6>, u8, 6),
            (u8x8, i8x8, BUintD8<8>, BIntD8<8>, u8, 8),
            (u8x12, i8x12, BUintD8<12>, BIntD8<12>, u8, 12),
            (u8x16, i8x16, BUintD8<16>, BIntD8<16>, u8, 16),
            (u8x17, i8x17, BUintD8<17>, BIntD8<17>, u8, 17),
            (u8x24, i8x24, BUintD8<24>, BIntD8<24>, u8, 24),
            (u8x40, i8x40, BUintD8<40>, BIntD8<40>, u8, 40),
            (u8x64, i8x64, BUintD8<64>, BIntD8<64>, u8, 64),
            (u8x1024, i8x1024, BUintD8<1024>, BIntD8<1024>, u8, 1024),
            (u16x1, i16x1, BUintD16<1>, BIntD16<1>, u16, 1),
            (u16x2, i16x2, BUintD16<2>, BIntD16<2>, u16, 2),
            (u16x3, i16x3, BUintD16<3>, BIntD16<3>, u16, 3),
            (u16x4, i16x4, BUintD16<4>, BIntD16<4>, u16, 4),
            (u16x5, i16x5, BUintD16<5>, BIntD16<5>, u16, 5),
            (u16x6, i16x6, BUintD16<6>, BIntD16<6>, u16, 6),
            (u16x8, i16x8, BUintD16<8>, BIntD16<8>, u16, 8),
            (u16x12, i16x12, BUintD16<12>, BIntD16<12>, u16, 12),
            (u16x20, i16x20, BUintD16<20>, BIntD16<20>, u16, 20),
            (u16x32, i16x32, BUintD16<32>, BIntD16<32>, u16, 32),
            (u32x1, i32x1, BUintD32<1>, BIntD32<1>, u32, 1),
            (u32x2, i32x2, BUintD32<2>, BIntD32<2>, u32, 2),
            (u32x3, i32x3, BUintD32<3>, BIntD32<3>, u32, 3),
            (u32x4, i32x4, BUintD32<4>, BIntD32<4>, u32, 4),
            (u32x5, i32x5, BUintD32<5>, BIntD32<5>, u32, 5),
            (u32x6, i32x6, BUintD32<6>, BIntD32<6>, u32, 6),
            (u32x8, i32x8, BUintD32<8>, BIntD32<8>, u32, 8),
            (u32x10, i32x10, BUintD32<10>, BIntD32<10>, u32, 10),
            (u32x16, i32x16, BUintD32<16>, BIntD32<16>, u32, 16),
            (u32x256, i32x256, BUintD32<256>, BIntD32<256>, u32, 256),
            (u64x1, i64x1, BUint<1>, BInt<1>, u64, 1),
            (u64x2, i64x2, BUint<2>, BInt<2>, u64, 2),
            (u64x3, i64x3, BUint<3>, BInt<3>, u64, 3),
            (u64x4, i64x4, BUint<4>, BInt<4>, u64, 4),
            (u64x5, i64x5, BUint<5>, BInt<5>, u64, 5),
            (u64x8, i64x8, BUint<8>, BInt<8>, u64, 8),
            (u64x16, i64x16, BUint<16>, BInt<16>, u64, 16),
            (u64x128, i64x128, BUint<128>, BInt<128>, u64, 128)
        }
    };
}

/// The primitive twins used for calibration: (umod, imod, unsigned, signed)
#[macro_export]
macro_rules! for_prims {
    ($cb:ident ; $($pre:tt)*) => {
        $cb! { $($pre)* ;
            (pu8, pi8, u8, i8),
            (pu16, pi16, u16, i16),
            (pu32, pi32, u32, i32),
            (pu64, pi64, u64, i64),
            (pu128, pi128, u128, i128)
        }
    };
}

pub const QUICK_CFGS: &[(u32, usize)] = &[(8, 1), (8, 2), (8, 3), (8, 5), (8, 8), (8, 16), (8, 17), (16, 1), (16, 3), (16, 4), (16, 5), (16, 8), (32, 1), (32, 2), (32, 3), (32, 4), (32, 6), (64, 1), (64, 2), (64, 3), (64, 4), (64, 5), (64, 128)];
pub const FULL_CFGS: &[(u32, usize)] = &[(8, 1), (8, 2), (8, 3), (8, 4), (8, 5), (8, 6), (8, 8), (8, 12), (8, 16), (8, 17), (8, 24), (8, 40), (8, 64), (8, 1024), (16, 1), (16, 2), (16, 3), (16, 4), (16, 5), (16, 6), (16, 8), (16, 12), (16, 20), (16, 32), (32, 1), (32, 2), (32, 3), (32, 4), (32, 5), (32, 6), (32, 8), (32, 10), (32, 16), (32, 256), (64, 1), (64, 2), (64, 3), (64, 4), (64, 5), (64, 8), (64, 16), (64, 128)];
