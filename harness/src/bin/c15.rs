//! C15 driver: byte slices and endianness. group "sl": args bytes ; group "en": args a:T
#![cfg_attr(feature = "nightly", allow(incomplete_features))]
#![cfg_attr(feature = "nightly", feature(generic_const_exprs))]
use bnum_verif_harness::*;

macro_rules! body {
    (bnum, $T:ty, $U:ty, $S:ty $(, $rest:tt)*) => {
        group_fn! { sl; args; { let b = args.bytes(0); };
            "from_be_slice" => <$T>::from_be_slice(b),
            "from_le_slice" => <$T>::from_le_slice(b),
        }
        body!(@en $T);
        #[cfg(feature = "nightly")]
        group_fn! { by; args; { let a: $T = args.v(0); };
            "to_be_bytes" => a.to_be_bytes().to_vec(),
            "to_le_bytes" => a.to_le_bytes().to_vec(),
            "to_ne_bytes" => a.to_ne_bytes().to_vec(),
            "be_bytes_roundtrip" => <$T>::from_be_bytes(a.to_be_bytes()),
            "le_bytes_roundtrip" => <$T>::from_le_bytes(a.to_le_bytes()),
            "ne_bytes_roundtrip" => <$T>::from_ne_bytes(a.to_ne_bytes()),
            "from_le_bytes_of_pattern" => <$T>::from_le_bytes(a.pat_to_le().try_into().unwrap()),
            "from_be_bytes_of_pattern" => <$T>::from_be_bytes({ let mut v = a.pat_to_le(); v.reverse(); v.try_into().unwrap() }),
        }
        #[cfg(not(feature = "nightly"))]
        pub fn by(_args: &Args, _out: &mut String) {}
        pub fn run(g: &str, args: &Args, out: &mut String) -> bool {
            match g { "sl" => { sl(args, out); true } "en" => { en(args, out); by(args, out); true } _ => false }
        }
    };
    (prim, $T:ty, $U:ty, $S:ty $(, $rest:tt)*) => {
        body!(@en $T);
        pub fn run(g: &str, args: &Args, out: &mut String) -> bool {
            match g { "en" => { en(args, out); true } _ => false }
        }
    };
    (@en $T:ty) => {
        group_fn! { en; args; { let a: $T = args.v(0); };
            "to_be" => a.to_be(),
            "to_le" => a.to_le(),
            "from_be" => <$T>::from_be(a),
            "from_le" => <$T>::from_le(a),
        }
    };
}

for_cfgs!(gen_mods; run_bnum, bnum, body, body);
for_prims!(gen_mods; run_prim, prim, body, body);

fn run(cfg: &str, g: &str, args: &Args, out: &mut String) -> bool {
    run_bnum(cfg, g, args, out) || run_prim(cfg, g, args, out)
}

fn main() {
    main_loop("C15", run);
}
