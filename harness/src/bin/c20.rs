//! C20 driver: random generation through a scripted RNG.
//! group "range": low high words(bytes) ; group "hist": low high method(0..6) ; group "std": words ; group "fill": words len
use bnum_verif_harness::*;
use rand::distributions::uniform::{SampleUniform, UniformSampler};
use rand::distributions::{Distribution, Uniform};
use rand::{Error, Rng, RngCore};

/// Replays a chosen byte stream, then falls back to a counter-based generator so that rejection loops terminate.
/// Records how many bytes were served and through how many calls.
pub struct Scripted<'a> {
    pub script: &'a [u8],
    pub pos: usize,
    pub served: usize,
    pub calls: usize,
    pub ctr: u64,
}
impl<'a> Scripted<'a> {
    pub fn new(script: &'a [u8]) -> Self { Scripted { script, pos: 0, served: 0, calls: 0, ctr: 0x9e3779b97f4a7c15 } }
    fn byte(&mut self) -> u8 {
        self.served += 1;
        if self.pos < self.script.len() { self.pos += 1; self.script[self.pos - 1] } else {
            self.ctr = self.ctr.wrapping_mul(6364136223846793005).wrapping_add(1442695040888963407);
            (self.ctr >> 33) as u8
        }
    }
}
impl<'a> RngCore for Scripted<'a> {
    fn next_u32(&mut self) -> u32 { let mut b = [0u8; 4]; self.fill_bytes(&mut b); u32::from_le_bytes(b) }
    fn next_u64(&mut self) -> u64 { let mut b = [0u8; 8]; self.fill_bytes(&mut b); u64::from_le_bytes(b) }
    fn fill_bytes(&mut self, dest: &mut [u8]) { self.calls += 1; for d in dest.iter_mut() { *d = self.byte(); } }
    fn try_fill_bytes(&mut self, dest: &mut [u8]) -> Result<(), Error> { self.fill_bytes(dest); Ok(()) }
}

fn draw<T: SampleUniform + Copy + PartialOrd>(method: usize, low: T, high: T, rng: &mut Scripted) -> T {
    match method {
        0 => rng.gen_range(low..high),
        1 => rng.gen_range(low..=high),
        2 => Uniform::new(low, high).sample(rng),
        3 => Uniform::new_inclusive(low, high).sample(rng),
        4 => <T::Sampler as UniformSampler>::sample_single(low, high, rng),
        _ => <T::Sampler as UniformSampler>::sample_single_inclusive(low, high, rng),
    }
}

macro_rules! body {
    ($kind:tt, $T:ty, $U:ty, $S:ty $(, $rest:tt)*) => {
        group_fn! { ranges; args; { let low: $T = args.v(0); let high: $T = args.v(1); let w = args.bytes(2); };
            "gen_range" => { let mut r = Scripted::new(w); let v = draw(0, low, high, &mut r); (v, r.served, r.calls) },
            "gen_range_inclusive" => { let mut r = Scripted::new(w); let v = draw(1, low, high, &mut r); (v, r.served, r.calls) },
            "uniform" => { let mut r = Scripted::new(w); let v = draw(2, low, high, &mut r); (v, r.served, r.calls) },
            "uniform_inclusive" => { let mut r = Scripted::new(w); let v = draw(3, low, high, &mut r); (v, r.served, r.calls) },
            "sample_single" => { let mut r = Scripted::new(w); let v = draw(4, low, high, &mut r); (v, r.served, r.calls) },
            "sample_single_inclusive" => { let mut r = Scripted::new(w); let v = draw(5, low, high, &mut r); (v, r.served, r.calls) },
            "uniform_reused" => { let u = Uniform::new_inclusive(low, high); let mut r = Scripted::new(w); let a = u.sample(&mut r); let b = u.sample(&mut r); (a, b) },
        }
        group_fn! { hist; args; { let low: $T = args.v(0); let high: $T = args.v(1); let method = args.usize(2); let inclusive = method % 2 == 1; };
            "hist" => {
                // every first word of the type's width; only draws that accept their first word are counted
                let bytes = <$T as Pat>::PAT_BYTES;
                assert!(bytes <= 3, "histogram enumeration is only for 8/16/24-bit types");
                let nwords: u32 = 1 << (8 * bytes);
                let mut counts = vec![0u32; nwords as usize];
                let (mut accepted, mut rejected, mut outside) = (0u64, 0u64, 0u64);
                for wd in 0..nwords {
                    let wb = wd.to_le_bytes();
                    let mut r = Scripted::new(&wb[..bytes]);
                    let v = draw(method, low, high, &mut r);
                    if r.calls == 1 && r.served == bytes {
                        accepted += 1;
                        let inside = if inclusive { v >= low && v <= high } else { v >= low && v < high };
                        if !inside { outside += 1; }
                        let mut idx = 0usize;
                        for (i, b) in v.pat_to_le().iter().enumerate() { idx |= (*b as usize) << (8 * i); }
                        counts[idx] += 1;
                    } else {
                        rejected += 1;
                    }
                }
                let hit = counts.iter().filter(|c| **c > 0).count();
                let minc = counts.iter().filter(|c| **c > 0).min().copied().unwrap_or(0);
                let maxc = counts.iter().max().copied().unwrap_or(0);
                (accepted, rejected, (outside, hit, (minc, maxc)))
            },
        }
        group_fn! { stds; args; { let w = args.bytes(0); };
            "standard" => { let mut r = Scripted::new(w); let v: $T = r.gen(); (v, r.served, r.calls) },
            "standard_twice" => { let mut r = Scripted::new(w); let a: $T = r.gen(); let b: $T = r.gen(); (a, b, r.served) },
        }
        group_fn! { fills; args; { let w = args.bytes(0); let len = args.usize(1); };
            "try_fill_slice" => { let mut r = Scripted::new(w); let mut v = vec![<$T>::ONE; len];
                let ok = bnum::random::try_fill_slice(&mut v[..], &mut r).is_ok();
                let mut bytes = Vec::new(); for x in v.iter() { bytes.extend(x.pat_to_le()); } (ok, bytes, r.served) },
            "gen_each" => { let mut r = Scripted::new(w); let mut bytes = Vec::new();
                for _ in 0..len { let x: $T = r.gen(); bytes.extend(x.pat_to_le()); } (true, bytes, r.served) },
            "try_fill_subslice" => { let mut r = Scripted::new(w); let mut v = vec![<$T>::ONE; len + 2];
                let ok = bnum::random::try_fill_slice(&mut v[1..len + 1], &mut r).is_ok();
                let untouched = v[0] == <$T>::ONE && v[len + 1] == <$T>::ONE;
                let mut bytes = Vec::new(); for x in v[1..len + 1].iter() { bytes.extend(x.pat_to_le()); } (ok && untouched, bytes, r.served) },
        }
        group_fn! { bigfills; args; { let total_bytes = args.usize(0); };
            // a slice of >= total_bytes bytes filled from the counter-based stream; verified in the driver against the same stream
            // (too large to ship to the monitor): (all elements equal the stream?, index of the first wrong element or len, bytes served, len)
            "try_fill_slice_big" => {
                let bytes = <$T as Pat>::PAT_BYTES;
                let len = (total_bytes + bytes - 1) / bytes;
                let mut v = vec![<$T>::ONE; len];
                let mut r = Scripted::new(&[]);
                let ok = bnum::random::try_fill_slice(&mut v[..], &mut r).is_ok();
                let mut expect = Scripted::new(&[]);
                let mut first_bad = len;
                let mut buf = vec![0u8; bytes];
                for (i, x) in v.iter().enumerate() {
                    expect.fill_bytes(&mut buf);
                    if x.pat_to_le() != buf { first_bad = i; break; }
                }
                (ok && first_bad == len, first_bad, (r.served, len))
            },
        }
        pub fn run(g: &str, args: &Args, out: &mut String) -> bool {
            match g { "range" => { ranges(args, out); true } "hist" => { hist(args, out); true } "std" => { stds(args, out); true }
                      "fill" => { fills(args, out); true } "bigfill" => { bigfills(args, out); true } _ => false }
        }
    };
}

for_cfgs!(gen_mods; run_bnum, bnum, body, body);

fn run(cfg: &str, g: &str, args: &Args, out: &mut String) -> bool {
    run_bnum(cfg, g, args, out)
}

fn main() {
    main_loop("C20", run);
}
