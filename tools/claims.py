# exec'd by gen_manifest.py
_T = 'runtime monitoring: API-boundary event log of the real code (dev + release builds) judged by an arbitrary-precision reference model calibrated against Rust primitives'
_N = ('trusted: Python int arithmetic, the reference model (self-checked against the Rust primitives at 8/16/32/64/128 bits on every run), '
      'from_digits/digits as the only bnum code used to move values in and out. Decides only the executions produced: %s')

CLAIMS['C01'] = dict(
    technique=_T,
    text='exploration: ~35 add/sub/neg/abs methods per operand tuple, 23 (quick) / 42 (thorough) digit-type x N configurations x signedness, structured adversarial operands, all 2^16 operand pairs at 8 bits, both build modes; held on every observed event',
    note=_N % 'widths 8..8192 from the instantiated list only; operands from the generator families only')
