#!/usr/bin/env python3
"""Development aid: final confirmation of the seeded changes the way the brief prescribes — apply the patch to /repo itself
(git -C /repo apply), run the registered check(s), undo straight afterwards (git -C /repo checkout -- .).

  tools/confirm_on_repo.py [seeded/<id> ...]      (default: all of seeded/*)

Must not run while anything else builds from /repo.  Records the result in seeded/<id>/meta.json under "confirmed_on_repo"."""
import glob
import json
import os
import subprocess
import sys
import time

ROOT = os.path.dirname(os.path.dirname(os.path.abspath(__file__)))


def sh(cmd, cwd=None, timeout=7200):
    p = subprocess.run(cmd, shell=True, cwd=cwd, stdout=subprocess.PIPE, stderr=subprocess.STDOUT, text=True, timeout=timeout)
    return p.returncode, p.stdout


def main():
    dirs = sys.argv[1:] or sorted(glob.glob(os.path.join(ROOT, 'seeded', 'C*')))
    rc, out = sh('git -C /repo status --porcelain')
    if out.strip():
        print('/repo has uncommitted changes; refusing to run')
        return 2
    for d in dirs:
        d = os.path.abspath(d)
        meta = json.load(open(os.path.join(d, 'meta.json')))
        checks = [c for c, v in meta.get('checks', {}).items() if v['verdict'] == 'VIOLATION'] or [meta['property']]
        tier = 'thorough' if any('miri' in ' '.join(v.get('first_violations', [])) for v in meta.get('checks', {}).values()) else 'quick'
        res = {}
        rc, out = sh('git -C /repo apply %s' % os.path.join(d, 'patch.diff'))
        if rc:
            print(d, 'patch does not apply:', out)
            continue
        try:
            for c in checks[:1]:
                t0 = time.time()
                rc, out = sh('./check %s %s%s' % (c, tier, ' --only-aux' if tier == 'thorough' else ''), cwd=ROOT)
                nv = sum(1 for l in out.splitlines() if l.startswith('VIOLATION'))
                res[c] = {'cmd': './check %s %s' % (c, tier), 'exit': rc, 'violation_lines': nv, 'wall_s': round(time.time() - t0)}
                print(os.path.basename(d), c, tier, 'exit', rc, 'VIOLATION lines', nv, flush=True)
        finally:
            sh('git -C /repo checkout -- .')
        meta['confirmed_on_repo'] = {'how': 'git -C /repo apply patch.diff; ./check <id>; git -C /repo checkout -- .', 'at': time.strftime('%Y-%m-%dT%H:%M:%S'), 'results': res}
        json.dump(meta, open(os.path.join(d, 'meta.json'), 'w'), indent=1)
    rc, out = sh('git -C /repo status --porcelain')
    print('repo clean' if not out.strip() else 'WARNING /repo not clean: ' + out)
    # restore evidence files written while patches were applied
    sh('git -C %s checkout -- evidence' % ROOT)
    return 0


if __name__ == '__main__':
    sys.exit(main())
