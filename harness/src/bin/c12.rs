//! C12 driver: formatting traits. group "fmt": args a:T spec:index width:usize
use bnum_verif_harness::*;
use bnum_verif_harness::fmt_table::fmt_spec;

macro_rules! body {
    ($kind:tt, $T:ty, $U:ty, $S:ty $(, $rest:tt)*) => {
        group_fn! { fmts; args; { let a: $T = args.v(0); let i = args.usize(1); let w = args.usize(2); };
            "Display" => fmt_spec(i, 0, w, &a, &a, &a, &a, &a, &a, &a, &a),
            "Debug" => fmt_spec(i, 1, w, &a, &a, &a, &a, &a, &a, &a, &a),
            "Binary" => fmt_spec(i, 2, w, &a, &a, &a, &a, &a, &a, &a, &a),
            "Octal" => fmt_spec(i, 3, w, &a, &a, &a, &a, &a, &a, &a, &a),
            "LowerHex" => fmt_spec(i, 4, w, &a, &a, &a, &a, &a, &a, &a, &a),
            "UpperHex" => fmt_spec(i, 5, w, &a, &a, &a, &a, &a, &a, &a, &a),
            "LowerExp" => fmt_spec(i, 6, w, &a, &a, &a, &a, &a, &a, &a, &a),
            "UpperExp" => fmt_spec(i, 7, w, &a, &a, &a, &a, &a, &a, &a, &a),
        }
        pub fn run(g: &str, args: &Args, out: &mut String) -> bool {
            match g { "fmt" => { fmts(args, out); true } _ => false }
        }
    };
}

for_cfgs!(gen_mods; run_bnum, bnum, body, body);
for_prims!(gen_mods; run_prim, prim, body, body);

fn run(cfg: &str, g: &str, args: &Args, out: &mut String) -> bool {
    run_bnum(cfg, g, args, out) || run_prim(cfg, g, args, out)
}

fn main() {
    main_loop("C12", run);
}
