#!/usr/bin/env python3
"""Regenerates MANIFEST.json from the table below (kept in one place so that the
manifest always matches what ./check can actually run)."""
import json
import os

ROOT = os.path.dirname(os.path.dirname(os.path.abspath(__file__)))
props = [json.loads(l) for l in open(os.path.join(ROOT, 'properties.jsonl'))]

BASELINE = ("cd /repo && cargo nextest run --workspace --no-fail-fast --test-threads 8 --offline "
            "|| cargo test --workspace --no-fail-fast --offline")

# property id -> (technique, level text, level note, design ref); absent => not built yet
CLAIMS = {}
NOT_APPLICABLE = {}

exec(open(os.path.join(ROOT, 'tools', 'claims.py')).read())

checks = []
na = []
for p in props:
    pid = p['id']
    if pid in CLAIMS:
        c = CLAIMS[pid]
        checks.append({
            'property_id': pid,
            'quick_cmd': './check %s quick' % pid,
            'thorough_cmd': './check %s thorough' % pid,
            'evidence_file': 'evidence/%s.json' % pid,
            'replay_cmd_template': './check %s --replay {path}' % pid,
            'engine': 'driver+monitor',
            'level_claimed': {'category': 'exploration', 'text': c['text'], 'design_ref': c.get('ref', 'DESIGN.md §7 ' + pid)},
            'level_note': c['note'],
            'technique': c['technique'],
        })
    else:
        na.append({'property_id': pid, 'reason': NOT_APPLICABLE.get(pid, 'check not built yet (work in progress); the design in DESIGN.md §7 applies')})

m = {
    'version': 1,
    'setup_cmd': './check setup',
    'hooks': {
        'guard': '--cfg bnum_verif',
        'enable': 'no source hooks are needed: every property is observed at the public API boundary by the driver in /verif/harness (path dependency on /repo); the guard name is reserved',
        'baseline_off_cmd': BASELINE,
        'source_commits': [],
        'add_only': True,
    },
    'engines': [{
        'name': 'driver+monitor',
        'path': 'harness/ (Rust driver, one binary per property) + monitor/ (Python reference models, orchestration)',
        'serves_properties': [c['property_id'] for c in checks],
        'kind_free_text': 'runtime monitoring: the real bnum code is executed on hostile generated workloads in dev and release builds (plus Miri / ASan / big-endian interpreter passes where relevant); every call is recorded at the API boundary and judged by an independent arbitrary-precision reference model that is calibrated in-run against the Rust primitives',
    }],
    'checks': checks,
    'notes': 'exit codes: 0 held, 1 VIOLATION, 2 INCONCLUSIVE (never folded into the other two). VERIF_SEED seeds every random choice.',
    'not_applicable': na,
}
json.dump(m, open(os.path.join(ROOT, 'MANIFEST.json'), 'w'), indent=1)
print('wrote MANIFEST.json: %d checks, %d not claimed' % (len(checks), len(na)))
