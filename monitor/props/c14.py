"""C14 — float/integer casts round and saturate exactly like Rust's `as`."""
import core
import gen
from props.common import default_encode, default_decode

PROP = 'C14'
BIN = 'c14'
# dense digit-count pass (run.dense_table): width-dependent estimates (digit counts, exponents) make every width interesting here
DENSE = {'quick': {64: 128}, 'thorough': {8: 1024, 16: 512, 32: 256}}
DENSE_REQS = {'quick': 60, 'thorough': 60}   # ~7400 types in the thorough tier: the width-sensitive family plus a sample of 120 requests each
DENSE_MODES = ('dev',)
SIG = {'tof': 'x', 'fromf': 'dd'}
encode = default_encode(SIG)
decode = default_decode(SIG)
TASK_REQS = 3000
F32 = (8, 23, 'f32')
F64 = (11, 52, 'f64')
RULE = ('int->float: values that fit the mantissa, values needing rounding with the dropped bits below / exactly at / above one half, '
        'odd and even kept mantissas (ties to even in both directions), all-ones mantissas (tie carrying into the exponent), values at '
        'and around the largest finite float (overflow to infinity: > 128 bits for f32, > 1024 bits for f64), negative values. '
        'float->int: NaNs, infinities, +-0, subnormals, every binade from 2^-1100 to 2^1100, fractions in (0, 0.5), 0.5, (0.5, 1), '
        'x.5, +-2^(BITS-1), 2^BITS and their neighbours one ulp up and down. The model is integer-only IEEE-754 arithmetic, calibrated '
        'against Rust `as` at the primitive widths. Non-trivial: every case other than an exactly representable small integer; '
        'distinct = distinct request lines')


def configs(tier):
    return core.cfg_names(full=(tier == 'thorough'))


def budget(cfg, tier):
    base = 4000 if tier == 'quick' else 40000
    if cfg.n >= 1024:
        return base // 8
    return base


def int_to_float(v, fmt, cls=None):
    ebits, mbits, name = fmt
    bias = (1 << (ebits - 1)) - 1
    if v == 0:
        return 0
    sign = 1 if v < 0 else 0
    m = abs(v)
    bl = m.bit_length()
    prec = mbits + 1
    kind = 'exact'
    if bl <= prec:
        mant = m << (prec - bl)
    else:
        shift = bl - prec
        mant = m >> shift
        rem = m & ((1 << shift) - 1)
        half = 1 << (shift - 1)
        if rem == 0:
            kind = 'exact (trailing zeros)'
        elif rem < half:
            kind = 'round down'
        elif rem > half:
            kind = 'round up'
            mant += 1
        elif mant & 1:
            kind = 'tie to even (up)'
            mant += 1
        else:
            kind = 'tie to even (down)'
        if mant == 1 << prec:
            mant >>= 1
            bl += 1
            kind += ', carry into the exponent'
    e = bl - 1
    if e > bias:
        if cls is not None:
            cls.add('%s: overflow to infinity' % name)
        return (sign << (ebits + mbits)) | (((1 << ebits) - 1) << mbits)
    if cls is not None:
        cls.add('%s: %s' % (name, kind))
    return (sign << (ebits + mbits)) | ((e + bias) << mbits) | (mant & ((1 << mbits) - 1))


def float_to_int(bits, fmt, cfg, cls=None):
    ebits, mbits, name = fmt
    bias = (1 << (ebits - 1)) - 1
    sign = bits >> (ebits + mbits)
    ex = (bits >> mbits) & ((1 << ebits) - 1)
    frac = bits & ((1 << mbits) - 1)
    tag = None
    if ex == (1 << ebits) - 1:
        if frac:
            tag = 'NaN'
            r = 0
        else:
            tag = 'infinity'
            r = cfg.min if sign else cfg.max
    else:
        if ex == 0:
            m, e = frac, 1 - bias - mbits
            tag = 'subnormal' if frac else ('negative zero' if sign else 'zero')
        else:
            m, e = frac | (1 << mbits), ex - bias - mbits
        t = (m << e) if e >= 0 else (m >> -e)
        if tag is None:
            if ex - bias < 0:
                tag = 'fraction in (0.5, 1)' if (ex - bias == -1 and frac) else ('exactly 0.5' if ex - bias == -1 else 'fraction below 0.5')
            elif e < 0 and (m & ((1 << -e) - 1)):
                tag = 'non-integer >= 1 (truncation)'
            else:
                tag = 'integer-valued'
        v = -t if sign else t
        r = cfg.clamp(v)
        if v != r:
            tag = 'saturates at %s' % ('MAX' if v > 0 else ('MIN' if cfg.signed else 'zero (negative to unsigned)'))
        elif v in (cfg.max, cfg.min) and v != 0:
            tag = 'exactly at the bound'
        elif sign and t and not cfg.signed:
            tag = 'saturates at zero (negative to unsigned)'
    if cls is not None:
        cls.add('%s->int: %s' % (name, tag))
    return r


def gen_int(cfg, rng):
    r = rng.random()
    b = cfg.bits
    if r < 0.15:
        return gen.value(cfg, rng)
    fmt = F32 if rng.random() < 0.5 else F64
    prec = fmt[1] + 1
    if r < 0.65 and b > prec:
        # construct: kept mantissa (prec bits) + dropped part around one half
        L = rng.randrange(prec + 1, b + 1 - (1 if cfg.signed else 0)) if b - (1 if cfg.signed else 0) > prec + 1 else b - (1 if cfg.signed else 0)
        if rng.random() < 0.25:
            L = b - (1 if cfg.signed else 0) - rng.choice((0, 0, 1, 2))
            L = max(L, prec + 1)
        shift = L - prec
        mant = (1 << (prec - 1)) | rng.getrandbits(prec - 1)
        mr = rng.random()
        if mr < 0.25:
            mant = (1 << prec) - 1          # all ones: rounding up carries into the exponent
        elif mr < 0.5:
            mant |= 1                        # odd
        elif mr < 0.75:
            mant &= ~1                       # even
        half = 1 << (shift - 1)
        j = rng.randrange(shift - 1) if shift > 1 else 0
        rem = rng.choice((half, half, half - 1 if half > 1 else 0, half + 1 if shift > 1 else half, 0, 1 if shift > 1 else 0, (1 << shift) - 1, rng.getrandbits(shift),
                          # a tie plus / minus one sticky bit at an arbitrary position below the half bit
                          (half | (1 << j)) if shift > 1 else half, (half | (1 << j)) if shift > 1 else half, (half - (1 << j)) if shift > 1 else 0))
        v = (mant << shift) | rem
    elif r < 0.8:
        # around the largest finite float
        ebits, mbits, _ = fmt
        emax = (1 << (ebits - 1)) - 1
        top = ((1 << (mbits + 1)) - 1) << (emax - mbits)
        halfulp = 1 << (emax - mbits - 1)
        v = rng.choice((top, top + halfulp, top + halfulp - 1, top + halfulp + 1, 1 << (emax + 1), (1 << (emax + 1)) - 1, top + 1, top - 1, (1 << (emax + 1)) + 1))
        if v > cfg.max:
            v = cfg.max - rng.choice((0, 1, rng.getrandbits(max(1, b // 2))))
    elif r < 0.9:
        k = rng.randrange(b)
        v = (1 << k) + rng.choice((-1, 0, 1))
    else:
        v = rng.getrandbits(rng.randrange(1, prec + 1))
    v = min(v, cfg.max)
    if cfg.signed and rng.random() < 0.4:
        v = max(-v, cfg.min)
        if rng.random() < 0.1:
            v = cfg.min + rng.choice((0, 1))
    return cfg.wrap(v)


def gen_float(cfg, rng, fmt):
    ebits, mbits, name = fmt
    bias = (1 << (ebits - 1)) - 1
    allones = (1 << ebits) - 1
    sign = rng.getrandbits(1) if rng.random() < 0.7 else 0
    r = rng.random()
    b = cfg.bits
    if r < 0.08:
        bits = rng.choice((0, allones << mbits, (allones << mbits) | 1, (allones << mbits) | (1 << (mbits - 1)), (allones << mbits) | rng.getrandbits(mbits), 1, (1 << mbits) - 1, rng.getrandbits(mbits)))
    elif r < 0.30:
        # around the bounds of the type: 2^(BITS-1), 2^BITS and neighbours
        k = rng.choice((b - 1, b, b - 2, b + 1, b - 1, b))
        if k + bias >= allones:
            k = allones - 1 - bias
        bits = ((k + bias) << mbits)
        bits += rng.choice((0, 0, -1, 1, -2, 2, rng.getrandbits(mbits)))
    elif r < 0.50:
        # fractions and x.5
        k = rng.choice((-1, -1, -1, -2, -3, 0, 0, 1, 2, 3, rng.randrange(0, min(b + 2, bias)), -rng.randrange(1, bias)))
        fr = rng.choice((0, 1, (1 << mbits) - 1, 1 << (mbits - 1), (1 << (mbits - 1)) + 1, rng.getrandbits(mbits)))
        if 0 < k <= mbits:
            fr = rng.choice((fr, 1 << (mbits - k - 1) if mbits - k - 1 >= 0 else 0, (rng.getrandbits(k) << (mbits - k)) | (1 << (mbits - k - 1) if mbits - k - 1 >= 0 else 0)))
        bits = ((k + bias) << mbits) | fr
    elif r < 0.85:
        lo = max(-bias + 1, -1100)
        hi = min(bias, 1100)
        k = rng.randrange(lo, hi + 1)
        if rng.random() < 0.5:
            k = rng.randrange(-2, min(b + 3, hi + 1))
        fr = rng.choice((0, 1, (1 << mbits) - 1, rng.getrandbits(mbits), rng.getrandbits(mbits)))
        bits = ((k + bias) << mbits) | fr
    else:
        bits = rng.getrandbits(ebits + mbits)
    bits &= (1 << (ebits + mbits)) - 1
    return bits | (sign << (ebits + mbits))


def requests(cfg, rng, n, tier, part, nparts, st):
    if cfg.bits == 8 and part == 0:
        for v in range(256):
            yield 'tof', (cfg.val(v),)
    if cfg.bits == 16 and part == 0:
        for v in range(0, 65536, 5):
            yield 'tof', (cfg.val(v),)
    stride = max(1, -(-(cfg.bits + 1) // max(256, 2 * n * nparts)))
    ks = list(range(rng.randrange(stride), cfg.bits + 1, stride))
    lo, hi = (len(ks) * part // nparts, len(ks) * (part + 1) // nparts)
    for k in ks[lo:hi]:
        for v in ((1 << k) - 1, 1 << k, (1 << k) | rng.getrandbits(k) if k else 1):
            if v <= cfg.max:
                yield 'tof', (cfg.wrap(v),)
            if cfg.signed and -v >= cfg.min:
                yield 'tof', (cfg.wrap(-v),)
    for _ in range(n // 2):
        yield 'tof', (gen_int(cfg, rng),)
    for _ in range(n - n // 2):
        yield 'fromf', (gen_float(cfg, rng, F32), gen_float(cfg, rng, F64))


def model(cfg, ctx, group, args):
    exp = {}
    cls = set()
    if group == 'tof':
        (a,) = args
        f32 = ('f32', int_to_float(a, F32, cls))
        f64 = ('f64', int_to_float(a, F64, cls))
        exp['to_f32'] = exp['castfrom_f32'] = f32
        exp['to_f64'] = exp['castfrom_f64'] = f64
        if a < 0:
            cls.add('negative integer')
        if cls <= {'f32: exact', 'f64: exact'}:
            cls.add('plain')
    else:
        x, y = args
        exp['from_f32'] = exp['castfrom_from_f32'] = float_to_int(x, F32, cfg, cls)
        exp['from_f64'] = exp['castfrom_from_f64'] = float_to_int(y, F64, cfg, cls)
    return exp, cls


_K = ['exact', 'round down', 'round up', 'tie to even (up)', 'tie to even (down)', 'tie to even (up), carry into the exponent',
      'round up, carry into the exponent', 'overflow to infinity']
_L = ['NaN', 'infinity', 'subnormal', 'negative zero', 'zero', 'fraction in (0.5, 1)', 'exactly 0.5', 'fraction below 0.5',
      'non-integer >= 1 (truncation)', 'integer-valued', 'saturates at MAX', 'saturates at MIN', 'saturates at zero (negative to unsigned)',
      'exactly at the bound']
REQUIRED = ['%s: %s' % (f, k) for f in ('f32', 'f64') for k in _K] + ['%s->int: %s' % (f, k) for f in ('f32', 'f64') for k in _L] + ['negative integer']


def floors(st, tier):
    return ['class %r never observed' % c for c in REQUIRED if st['classes'].get(c, 0) == 0]


def extra_passes(runmod, tier, seed, st, jobs):
    import aux
    me = __import__('props.c14', fromlist=['x'])
    return {'float_sweeps_vs_primitive': aux.float_sweeps(runmod, me, tier, seed, st, jobs)}


def dense_requests(cfg, rng, n, st):
    """dense digit-count pass: the bounds of this width in both directions — integers at the top of the range whose dropped part is below / at /
    above one half (the exponent and the infinity threshold depend on BITS), and floats at 2^(BITS-1), 2^BITS and one ulp around them"""
    b = cfg.bits
    top = b - (1 if cfg.signed else 0)
    for v in (cfg.max, cfg.min, cfg.max - 1, 1 << (top - 1), (1 << (top - 1)) - 1, (1 << (top - 1)) + 1):
        yield 'tof', (cfg.wrap(v) if cfg.min <= v <= cfg.max else cfg.max,)
    for fmt in (F32, F64):
        prec = fmt[1] + 1
        if top > prec + 1:
            shift = top - prec
            half = 1 << (shift - 1)
            for mant in ((1 << prec) - 1, (1 << prec) - 2, (1 << (prec - 1)) | 1):
                for rem in (half, half - 1, half + 1, 0, (1 << shift) - 1):
                    v = (mant << shift) | rem
                    yield 'tof', (cfg.wrap(v),)
                    if cfg.signed:
                        yield 'tof', (cfg.wrap(-v),)
    for k in (b - 2, b - 1, b, b + 1):
        for d in (0, -1, 1):
            pair = []
            for (ebits, mbits, _) in (F32, F64):
                bias = (1 << (ebits - 1)) - 1
                kk = min(k, bias)
                pair.append((((kk + bias) << mbits) + d) & ((1 << (ebits + mbits)) - 1))
            for sg in (0, 1):
                yield 'fromf', (pair[0] | (sg << 31), pair[1] | (sg << 63))
