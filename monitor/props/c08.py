"""C08 — powers and integer logarithms are exact."""
import core
import gen
from core import PANIC, Some, opt
from props.common import thorough_aux, default_encode, default_decode, split_range

PROP = 'C08'
BIN = 'c08'
SIG = {'pow': 'xd', 'log': 'xx'}
encode = default_encode(SIG)
decode = default_decode(SIG)
TASK_REQS = 2000
RULE = ('pow requests (base, exponent): bases 0, +-1, +-2, 2^k, 2^k+-1, floor(2^(BITS/e))+-1 (power overflow boundary), negative '
        'bases hitting exactly MIN, bases of k+1 bits (powers of two and others) with exponents making k*e or (k+1)*e wrap 2^32, structured values; exponents 0..3, parity pairs, BITS-1, BITS, u32::MAX, uniform. log requests '
        '(x, base): b^k, b^k-1, b^k+1, MAX, 1, non-positive x, bases 0, 1, 2, 10, MAX, x itself; 2^k-1 and 2^k for every bit length k and 10^k-1, 10^k for every k (a seed-dependent stride on wide types). All (base, exponent<=17) at 8 bits. '
        'Non-trivial: the exact power is within one bit of the boundary, equals MIN, overflows; the log argument is an exact power '
        'of the base or one off; invalid log argument/base; distinct = distinct request lines')


def configs(tier):
    return core.cfg_names(full=(tier == 'thorough'))


def budget(cfg, tier):
    base = 3000 if tier == 'quick' else 30000
    if cfg.bits == 8:
        return 256 * 24 + 65536
    if cfg.n >= 1024:
        return 30 if tier == 'quick' else 150
    if cfg.n >= 128:
        return base // 20
    return base


def iroot(x, e):
    """floor(x ** (1/e)) for x >= 0"""
    if x < 2:
        return x
    r = 1 << ((x.bit_length() + e - 1) // e)
    while True:
        nr = ((e - 1) * r + x // r ** (e - 1)) // e
        if nr >= r:
            return r
        r = nr


def requests(cfg, rng, n, tier, part, nparts, st):
    b = cfg.bits
    if b == 8:
        total = 256 * 24 + 65536
        lo, hi = split_range(total, part, nparts)
        exps = list(range(18)) + [31, 32, 255, 256, (1 << 32) - 1, (1 << 32) - 2]
        for i in range(lo, hi):
            if i < 256 * 24:
                yield 'pow', (cfg.val(i & 255), exps[i >> 8])
            else:
                j = i - 256 * 24
                yield 'log', (cfg.val(j & 255), cfg.val(j >> 8))
        st['exhaustive'].append('%s: all bases x exponents 0..=17 and 6 large exponents; all (x, base) log pairs' % cfg.name)
        return
    # logarithms at every bit length (2^k - 1, 2^k) and at every power of ten (10^k - 1, 10^k): an estimate of the digit count from the bit length
    # that is off by one only shows at particular lengths; a seed-dependent stride when the budget of the configuration is smaller than its width
    stride = max(1, -(-(b + 1) // max(256, 2 * n * nparts)))
    ks = list(range(rng.randrange(stride), b + 1, stride))
    lo, hi = (len(ks) * part // nparts, len(ks) * (part + 1) // nparts)
    for k in ks[lo:hi]:
        for v in ((1 << k) - 1, 1 << k):
            if 1 <= v <= cfg.max:
                yield 'log', (v, 10)
                yield 'log', (v, rng.choice((3, 7, 16, 100, 255)))
    kmax10 = len(str(cfg.max)) - 1
    k10 = list(range(rng.randrange(stride), kmax10 + 1, stride))
    lo, hi = (len(k10) * part // nparts, len(k10) * (part + 1) // nparts)
    for k in k10[lo:hi]:
        yield 'log', (10 ** k, 10)
        if k:
            yield 'log', (10 ** k - 1, 10)
    for _ in range(n):
        r = rng.random()
        if r < 0.5:
            # ---- pow
            rr = rng.random()
            e = rng.choice((0, 1, 2, 3, 4, 5, 7, 8, 15, 16, 31, 32, 33, 63, 64, 65, b - 1, b, b + 1, rng.randrange(2, 2 * b + 2)))
            if rr < 0.35 and e >= 1:
                lim = rng.choice((cfg.max, cfg.max + 1, -cfg.min if cfg.signed else cfg.max))
                a = iroot(lim, e) + rng.choice((-1, 0, 0, 1))
                if cfg.signed and rng.random() < 0.5:
                    a = -a
            elif rr < 0.55:
                k = rng.randrange(0, b)
                a = (1 << k) + rng.choice((-1, 0, 0, 1))
                e = rng.choice((e, (b - 1) // max(k, 1), (b - 1) // max(k, 1) + 1, b // max(k, 1), max(0, (b - 2) // max(k, 1))))
                if cfg.signed and rng.random() < 0.5:
                    a = -a
            elif rr < 0.70:
                a = rng.choice((0, 1, -1, 2, -2, 3, -3, 10, cfg.max, cfg.min))
                e = rng.choice((e, 0, 1, (1 << 32) - 1, (1 << 32) - 2, 1 << 31, rng.getrandbits(32), b - 1, b, b - 2))
            elif rr < 0.78:
                # power-of-two base with an exponent for which k*e is at, or just above, a multiple of 2^32 (an exponent-times-log2
                # computation in 32 bits would wrap to a small shift)
                k = rng.choice((1, 2, 3, 4, 8, 16, 32, 64, rng.randrange(1, b)))
                k = min(k, b - 1)
                m = rng.choice((1, 1, 2, 3))
                a = 1 << k
                L = k
                if rng.random() < 0.5:
                    # any base of that size: its bit length (k + 1) or floor(log2) (k) times the exponent wraps
                    a |= rng.getrandbits(k)
                    L = rng.choice((k, k + 1))
                e = -(-(m << 32) // L) + rng.choice((0, 0, 1, 2, rng.randrange(0, b)))
                if e >= 1 << 32:
                    e = (1 << 32) - 1
                if cfg.signed and rng.random() < 0.4:
                    a = -a
            elif rr < 0.85:
                a = gen.short(cfg, rng)
                e = rng.choice((0, 1, 2, 3, 4, 5, 6, 7, rng.getrandbits(5)))
            else:
                a = gen.value(cfg, rng)
                e = rng.choice((0, 1, 2, 3, rng.getrandbits(32)))
            yield 'pow', (cfg.wrap(a), e & 0xffffffff)
        else:
            # ---- log
            rr = rng.random()
            if rr < 0.5:
                base = rng.choice((2, 3, 10, 10, 7, 16, 255, 256, 257, 1 << rng.randrange(1, b - 1 if b > 2 else 2), gen.short(cfg, rng), rng.randrange(2, 1000)))
                base = abs(base)
                if base < 2:
                    base = 2
                if base > cfg.max:
                    base = cfg.max
                kmax = 0
                x = base
                while x * base <= cfg.max:
                    x *= base
                    kmax += 1
                    if kmax > 9000:
                        break
                k = rng.choice((0, 1, kmax, kmax + 1, max(0, kmax - 1), rng.randrange(kmax + 2)))
                x = base ** k + rng.choice((-1, 0, 0, 1))
                if x > cfg.max:
                    x = cfg.max
                a = x
            elif rr < 0.56:
                # digits equal to the largest power of ten in a whole / half digit (the chunk bases of a decimal digit count), zero or random
                D = cfg.dbits
                tens = [10 ** k for k in range(1, 20) if 10 ** k < (1 << D)]
                half = [t for t in tens if t < (1 << (D // 2))] or tens[:1]
                a = 0
                for i in range(cfg.n):
                    c = rng.random()
                    d = (rng.choice(tens[-2:] + half[-2:]) + rng.choice((-1, 0, 0, 1))) if c < 0.4 else (0 if c < 0.6 else rng.getrandbits(D))
                    a |= (d % cfg.B) << (D * i)
                if rng.random() < 0.5:
                    from props.c11 import chunk_digit_value, sparse_in_radix
                    a = rng.choice((chunk_digit_value, sparse_in_radix))(cfg.U(), rng, 10)
                a = min(a, cfg.max) or 1
                base = 10
            elif rr < 0.65:
                a = rng.choice((0, 1, -1, cfg.min, cfg.max, 9, 10, 11, 99, 100, 101, gen.value(cfg, rng)))
                base = rng.choice((0, 1, 2, -1, -2, cfg.min, cfg.max, 10, a, gen.value(cfg, rng)))
            elif rr < 0.8:
                k = rng.randrange(0, max(1, int(b * 0.30103)) + 1)
                a = 10 ** k + rng.choice((-1, 0, 0, 1))
                if a > cfg.max:
                    a = cfg.max
                base = 10
            else:
                a = gen.value(cfg, rng)
                base = rng.choice((2, 10, gen.short(cfg, rng), gen.value(cfg, rng), a))
            yield 'log', (cfg.wrap(a), cfg.wrap(base))


def ilog(x, b):
    """greatest k with b^k <= x, for x >= 1, b >= 2"""
    xl, bl = x.bit_length(), b.bit_length()
    lo = (xl - 1) // bl
    hi = (xl - 1) // (bl - 1)
    while lo < hi:
        mid = (lo + hi + 1) // 2
        if b ** mid <= x:
            lo = mid
        else:
            hi = mid - 1
    return lo


def model(cfg, ctx, group, args):
    exp = {}
    cls = set()
    b = cfg.bits
    if group == 'pow':
        a, e = args
        if e == 0:
            exact = 1
            known = True
        elif abs(a) >= 2 and e * (abs(a).bit_length() - 1) >= b:
            exact = None  # certainly overflows: |a|^e >= 2^BITS
            known = False
        else:
            exact = a ** e
            known = True
        if known:
            o = not cfg.fits(exact)
            v = cfg.wrap(exact)
            sat = cfg.clamp(exact)
            if o:
                if abs(exact).bit_length() <= b + 1:
                    cls.add('power overflows by at most 2 bits')
            else:
                if abs(a) >= 2 and e >= 2:
                    if abs(exact).bit_length() >= b - 1:
                        cls.add('power fits with at most 1 bit to spare')
                    else:
                        cls.add('plain:non-trivial power fits')
                if cfg.signed and exact == cfg.min:
                    cls.add('power is exactly MIN')
        else:
            o = True
            v = cfg.wrap(pow(a, e, cfg.mod))
            sat = cfg.min if (a < 0 and e % 2 == 1) else cfg.max
        if o:
            cls.add('power overflows' + (' (negative base, odd exponent: saturates to MIN)' if a < 0 and e % 2 else ''))
        if e >= b:
            cls.add('exponent >= BITS')
        if a in (0, 1, -1) and e > 3:
            cls.add('plain:unit base, large exponent')
        if a == 0 and e == 0:
            cls.add('0^0')
        exp['overflowing_pow'] = (v, o)
        exp['checked_pow'] = opt(o, v)
        exp['wrapping_pow'] = v
        exp['saturating_pow'] = sat
        exp['strict_pow'] = PANIC if o else v
        exp['pow'] = (PANIC if ctx['dbg'] else v) if o else v
    else:
        x, base = args
        bad_x = x <= 0
        bad_b = base < 2
        if bad_x:
            cls.add('log of non-positive value')
        if bad_b:
            cls.add('log base < 2')
        if bad_x:
            exp['ilog2'] = exp['ilog10'] = PANIC
            exp['checked_ilog2'] = exp['checked_ilog10'] = None
        else:
            exp['ilog2'] = x.bit_length() - 1
            exp['checked_ilog2'] = Some(x.bit_length() - 1)
            k10 = ilog(x, 10)
            assert 10 ** k10 <= x < 10 ** (k10 + 1)
            exp['ilog10'] = k10
            exp['checked_ilog10'] = Some(k10)
            if x == 10 ** k10 or x + 1 == 10 ** (k10 + 1):
                cls.add('log10 argument at a power of ten boundary')
        if bad_x or bad_b:
            exp['ilog'] = PANIC
            exp['checked_ilog'] = None
        else:
            k = ilog(x, base)
            assert base ** k <= x < base ** (k + 1)
            exp['ilog'] = k
            exp['checked_ilog'] = Some(k)
            if x == base ** k and k >= 1:
                cls.add('log argument is an exact power of the base')
            elif x + 1 == base ** (k + 1):
                cls.add('log argument is one below a power of the base')
            if base > x:
                cls.add('plain:base > argument')
            if base ** (k + 1) > cfg.max:
                cls.add('log: next power of the base does not fit the type')
    if not cls:
        cls.add('plain')
    return exp, cls


REQUIRED = ['power overflows', 'power overflows by at most 2 bits', 'power fits with at most 1 bit to spare', 'power is exactly MIN',
            'power overflows (negative base, odd exponent: saturates to MIN)', 'exponent >= BITS', '0^0', 'log of non-positive value',
            'log base < 2', 'log argument is an exact power of the base', 'log argument is one below a power of the base',
            'log10 argument at a power of ten boundary', 'log: next power of the base does not fit the type']


def floors(st, tier):
    return ['class %r never observed' % c for c in REQUIRED if st['classes'].get(c, 0) == 0]


extra_passes = thorough_aux('props.c08', (), exh=True)
