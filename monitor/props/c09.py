"""C09 — integer casts follow Rust's `as` semantics between all integer types."""
import core
import gen
from core import Some
from props.common import default_encode, default_decode, split_range

PROP = 'C09'
BIN = 'c09'
SIG = {'cast': 'x', 'fp': 'ddd', 're': 'x'}
encode = default_encode(SIG)
decode = default_decode(SIG)
TASK_REQS = 1500
CAST_TYPES = ['u8x1', 'i8x1', 'u8x3', 'i8x3', 'u8x5', 'i8x5', 'u8x17', 'i8x17', 'u16x1', 'i16x1', 'u16x3', 'i16x3', 'u16x5', 'i16x5',
              'u32x2', 'i32x2', 'u32x3', 'i32x3', 'u32x5', 'i32x5', 'u64x1', 'i64x1', 'u64x2', 'i64x2', 'u64x3', 'i64x3',
              'u64x5', 'i64x5', 'u32x10', 'i32x10', 'u8x33', 'i8x33', 'u8x260', 'i8x260']
PRIMS = [('u8', 0, 8), ('u16', 0, 16), ('u32', 0, 32), ('u64', 0, 64), ('u128', 0, 128), ('usize', 0, 64),
         ('i8', 1, 8), ('i16', 1, 16), ('i32', 1, 32), ('i64', 1, 64), ('i128', 1, 128), ('isize', 1, 64)]
RULE = ('every source value is cast (CastFrom and As) into all 34 types of the cast list (all four digit sizes, both signs, widths '
        '8..2080 that are and are not multiples of each other) and all 12 primitives; primitives, bool and char are cast into every '
        'list type; cast_signed/cast_unsigned/to_bits/from_bits on the main configuration table. Sources: structured values plus, '
        'for a randomly chosen target, that target\'s MAX, MAX+1, MIN, MIN-1, 2^BITS+-1 and patterns with garbage exactly in the bits '
        'that must be dropped. Non-trivial: negative source (sign extension) or a source wider than the narrowest target '
        '(truncation); distinct = distinct request lines. 1156 ordered bnum x bnum pairs, 408 bnum -> primitive, 408+68 primitive/bool/char -> bnum')


def prim_cfg(name):
    return core.Cfg('p' + name.replace('usize', 'u64').replace('isize', 'i64'))


def configs(tier):
    main = core.cfg_names(full=(tier == 'thorough'))
    return CAST_TYPES + [c for c in main if c not in CAST_TYPES]


def budget(cfg, tier):
    return 3000 if tier == 'quick' else 30000


def cast_source(cfg, rng):
    r = rng.random()
    if r < 0.4:
        return gen.value(cfg, rng)
    t = core.Cfg(rng.choice(CAST_TYPES)) if rng.random() < 0.7 else prim_cfg(rng.choice(PRIMS)[0])
    if r < 0.7:
        v = rng.choice((t.max, t.max + 1, t.min, t.min - 1, t.mod, t.mod - 1, t.mod + 1, -t.mod, -t.mod + 1, -t.mod - 1, 1 << (t.bits - 1), -(1 << (t.bits - 1)) - 1))
        return cfg.wrap(v)
    # garbage exactly in the bits that must be dropped / sign bit of the target set
    low = rng.getrandbits(t.bits) | (rng.getrandbits(1) << (t.bits - 1))
    hi = rng.choice((0, -1, rng.getrandbits(cfg.bits), 1, 1 << rng.randrange(cfg.bits)))
    return cfg.wrap((hi << t.bits) | low)


def requests(cfg, rng, n, tier, part, nparts, st):
    if cfg.name in core.cfg_names(full=(tier == 'thorough')):
        for _ in range(max(100, n // 8)):
            yield 're', (gen.value(cfg, rng),)
    if cfg.name in CAST_TYPES:
        if cfg.bits == 8:
            for v in range(256):
                yield 'cast', (cfg.val(v),)
            st['exhaustive'].append('%s: all source values -> every target type' % cfg.name)
        elif cfg.bits == 16 and part == 0:
            for v in range(0, 65536, 1 if tier != 'quick' else 7):
                yield 'cast', (cfg.val(v),)
            if tier != 'quick':
                st['exhaustive'].append('%s: all source values -> every target type' % cfg.name)
        for _ in range(n * 2 // 3):
            yield 'cast', (cast_source(cfg, rng),)
        for _ in range(n // 3):
            r = rng.random()
            if r < 0.3:
                p = prim_cfg(rng.choice(PRIMS)[0])
                d = rng.choice((p.min, p.max, p.min + 1, p.max - 1, 0, -1, 1))
            elif r < 0.6:
                d = rng.choice((1, -1)) * (1 << rng.randrange(0, 128)) + rng.choice((-1, 0, 1))
            else:
                d = rng.choice((1, -1)) * rng.getrandbits(rng.choice((7, 8, 15, 16, 31, 32, 63, 64, 127, 128)))
            d = max(-(1 << 127), min((1 << 128) - 1, d))
            c = rng.choice((0, 0x41, 0x7f, 0x80, 0xff, 0x100, 0xd7ff, 0xe000, 0xffff, 0x10000, 0x10ffff, rng.randrange(0xd800), rng.randrange(0xe000, 0x110000)))
            yield 'fp', (d, rng.getrandbits(1), c)


def model(cfg, ctx, group, args):
    exp = {}
    cls = set()
    if group == 'cast':
        (v,) = args
        for n in CAST_TYPES:
            t = core.Cfg(n)
            w = t.wrap(v)
            exp['to_' + n] = w
            exp['as_' + n] = w
        for pn, sg, bits in PRIMS:
            exp['to_' + pn] = prim_cfg(pn).wrap(v)
        if v < 0:
            cls.add('negative source (sign extension into wider targets)')
        if cfg.pat(v).bit_length() > 8:
            cls.add('source wider than the narrowest target (truncation)')
        if v >= 0 and cfg.pat(v).bit_length() <= 8:
            cls.add('plain:small non-negative source')
        cls.add('plain:src digit %d' % cfg.dbits)
        if cfg.bits % 64:
            cls.add('source width not a multiple of 64 (partial last digit in u64-digit targets)')
    elif group == 'fp':
        d, b, c = args
        for pn, sg, bits in PRIMS:
            p = prim_cfg(pn)
            exp['from_' + pn] = Some(cfg.wrap(d)) if p.fits(d) else None
        for pn in ('u64', 'i64', 'i8', 'u128'):
            exp['as_from_' + pn] = Some(cfg.wrap(d)) if prim_cfg(pn).fits(d) else None
        i128, u128 = core.Cfg('pi128'), core.Cfg('pu128')
        for pn in ('u8', 'u16', 'u32', 'u64', 'u128', 'i8', 'i16', 'i32', 'i64'):
            exp['calib_as_' + pn] = Some(prim_cfg(pn).wrap(d)) if i128.fits(d) else None
        for pn in ('i128', 'i64', 'u8'):
            exp['calib_u128_as_' + pn] = Some(prim_cfg(pn).wrap(d)) if u128.fits(d) else None
        exp['from_bool'] = int(b)
        exp['from_char'] = cfg.wrap(c)
        if d < 0:
            cls.add('negative primitive source')
        if not cfg.fits(d):
            cls.add('primitive source does not fit the target (truncation)')
        if c > cfg.max:
            cls.add('char does not fit the target')
        if not cls:
            cls.add('plain')
    else:
        (a,) = args
        p = cfg.pat(a)
        if cfg.signed:
            exp['cast_unsigned'] = p
            exp['to_bits'] = p
            exp['from_bits'] = a
            exp['as_bits'] = p
            exp['as_bits_mut'] = a
        else:
            exp['cast_signed'] = cfg.S().val(p)
        cls.add('reinterpretation with top bit set' if p >> (cfg.bits - 1) else 'plain:reinterpretation')
    return exp, cls


REQUIRED = ['negative source (sign extension into wider targets)', 'source wider than the narrowest target (truncation)',
            'negative primitive source', 'primitive source does not fit the target (truncation)', 'char does not fit the target',
            'reinterpretation with top bit set', 'source width not a multiple of 64 (partial last digit in u64-digit targets)']


def floors(st, tier):
    out = ['class %r never observed' % c for c in REQUIRED if st['classes'].get(c, 0) == 0]
    for n in CAST_TYPES:
        for k in ('to_' + n, 'as_' + n):
            if st['ops'].get(k, 0) < 200 * len(CAST_TYPES):
                out.append('target %s saw only %d events' % (k, st['ops'].get(k, 0)))
    return out
