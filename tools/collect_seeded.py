#!/usr/bin/env python3
"""Copies evaluated seeded changes (/tmp/mut-<ID>/<k> with eval.json) into /verif/seeded/<ID>-<k>/ and writes seeded/INDEX.md.
Only changes that were confirmed (patch applies, pinned suite passes, demonstration fails with / passes without) are kept."""
import glob
import json
import os
import shutil
import sys

ROOT = os.path.dirname(os.path.dirname(os.path.abspath(__file__)))
rows = []
for d in sorted(glob.glob('/tmp/mut-C*/[0-9]*')) + sorted(glob.glob('/tmp/mut2-C*/[0-9]*')) + sorted(glob.glob('/tmp/mut3-C*/[0-9]*')) + sorted(glob.glob('/tmp/mut5-C*/[0-9]*')) + sorted(glob.glob('/tmp/mut6-T*/[0-9]*')) + sorted(glob.glob('/tmp/mut7-C*/[0-9]*')):
    ev = os.path.join(d, 'eval.json')
    if not os.path.exists(ev):
        continue
    e = json.load(open(ev))
    m = json.load(open(os.path.join(d, 'meta.json')))
    ok = e.get('patch_applies') and e.get('suite_passes_with_patch') and e.get('demo_fails_with_patch') and e.get('demo_passes_without_patch')
    if '/mut7-' in d:
        name = '%s-r7-%s-%s' % (m['property'], d.split('/mut7-')[1].split('/')[0], os.path.basename(d))
    elif '/mut6-' in d:
        name = '%s-r6-%s-%s' % (m['property'], d.split('/mut6-')[1].split('/')[0], os.path.basename(d))
    else:
      name = '%s-%s%s' % (m['property'], ('r2-' if '/mut2-' in d else ('r3-' if '/mut3-' in d else ('r5-' if '/mut5-' in d else ''))), os.path.basename(d))
    if not ok and '--all' not in sys.argv:
        print('NOT CONFIRMED', name, {k: e.get(k) for k in ('patch_applies', 'suite_passes_with_patch', 'demo_fails_with_patch', 'demo_passes_without_patch')})
        continue
    out = os.path.join(ROOT, 'seeded', name)
    os.makedirs(out, exist_ok=True)
    shutil.copy(os.path.join(d, 'patch.diff'), out)
    shutil.copy(os.path.join(d, 'demo.rs'), out)
    prev = {}
    if os.path.exists(os.path.join(out, 'meta.json')):
        prev = json.load(open(os.path.join(out, 'meta.json')))
    caught = {c: ('VIOLATION' if v['exit'] == 1 else ('INCONCLUSIVE' if v['exit'] == 2 else 'missed')) for c, v in e.get('checks', {}).items()}
    hist = prev.get('history', [])
    entry = {'at': e.get('at'), 'verdicts': caught}
    if not hist or hist[-1].get('verdicts') != caught:
        hist.append(entry)
    meta = {
        'property': m['property'],
        'summary': m.get('summary'),
        'needs': m.get('needs'),
        'demo_cmd': e.get('demo_cmd'),
        'origin': ('written by a fresh sub-agent that saw only the property text and a scratch worktree of /repo'
                   + ('; round 2: the agent was additionally told, in general terms, which kinds of inputs and configurations a monitor would already cover, and asked for changes that need something more specific' if '/mut2-' in d else ('; round 3: as round 2, and asked for changes made of two cooperating edits or depending on a rare internal intermediate value' if '/mut3-' in d else ('; round 5: told which digit counts, operand families and build modes the harness covers, and asked for changes failing on fewer than one in 10^5 structured inputs or only on an unusual configuration / entry point / build mode' if '/mut5-' in d else ('; round 6: the agent was given the text of all twenty properties, a theme (build-mode differences, narrowed intermediates, fast paths, sign handling, feature-gated code, text conversion, conversions, free choice), and a description of the operand families and configurations a harness covers (including every digit count up to 32)' if '/mut6-' in d else ('; round 7: as round 6, but aimed at one property for which round 6 had produced no change, with the remark that all earlier attempts on it had been detected; the agent was asked to stress-test its own change against a reference before settling on it' if '/mut7-' in d else '')))))),
        'confirmed_by_me': {'how': 'tools/eval_mutant.py in a fresh scratch worktree of /repo HEAD: git apply patch.diff; cargo nextest run --workspace --offline (pinned suite); '
                                   'cargo build --features numtraits,rand; demo with and without the patch; then ./check <id> quick with VERIF_REPO=<worktree>',
                            'patch_applies': e.get('patch_applies'), 'suite_passes_with_patch': e.get('suite_passes_with_patch'), 'suite_summary': e.get('suite'),
                            'demo_fails_with_patch': e.get('demo_fails_with_patch'), 'demo_passes_without_patch': e.get('demo_passes_without_patch')},
        'checks': {c: {'verdict': caught[c], 'first_violations': v['first'][:3], 'summary': v['summary'][:1], 'wall_s': v['wall_s']} for c, v in e.get('checks', {}).items()},
        'history': hist,
    }
    oe = os.path.join(d, 'old_eval.json')
    if os.path.exists(oe):
        o = json.load(open(oe))
        meta['own_check_as_it_stood_before_this_round'] = {'verif_commit': '68c8575', 'verdict': 'VIOLATION' if o['exit'] == 1 else ('INCONCLUSIVE' if o['exit'] == 2 else 'missed')}
    elif prev.get('own_check_as_it_stood_before_this_round'):
        meta['own_check_as_it_stood_before_this_round'] = prev['own_check_as_it_stood_before_this_round']
    json.dump(meta, open(os.path.join(out, 'meta.json'), 'w'), indent=1)
    rows.append((name, m.get('summary', '')[:160].replace('\n', ' '), ', '.join('%s: %s' % kv for kv in caught.items())))
# the index lists everything under seeded/, also the changes collected in earlier sessions whose /tmp directories are gone
have = {r[0] for r in rows}
for mp in sorted(glob.glob(os.path.join(ROOT, 'seeded', '*', 'meta.json'))):
    name = os.path.basename(os.path.dirname(mp))
    if name in have:
        continue
    m = json.load(open(mp))
    rows.append((name, (m.get('summary') or '')[:160].replace('\n', ' '), ', '.join('%s: %s' % (c, v['verdict']) for c, v in m.get('checks', {}).items())))
rows.sort()
with open(os.path.join(ROOT, 'seeded', 'INDEX.md'), 'w') as f:
    f.write('| seeded change | what it does | verdict of the checks run against it |\n|---|---|---|\n')
    for r in rows:
        f.write('| %s | %s | %s |\n' % r)
print('%d seeded changes collected' % len(rows))
