"""C13 — checked conversions succeed exactly when the value is representable."""
import core
import gen
from core import Some, Ok, Err
from props.common import default_encode, default_decode
from props.c09 import CAST_TYPES, PRIMS, prim_cfg, cast_source

PROP = 'C13'
BIN = 'c13'
SIG = {'btry': 'x', 'fpt': 'ddd', 'dig': 'xd'}
encode = default_encode(SIG)
decode = default_decode(SIG)
TASK_REQS = 1500
RULE = ('every source value goes through BTryFrom into all 34 types of the cast list and TryFrom into all 12 primitives; primitives, '
        'bool and char go through From/TryFrom into every configuration at least as wide as the source (strictly wider for unsigned '
        'source -> signed target); digit-array accessors are checked by three independent routes. Sources are aimed at the '
        'targets\' MAX, MAX+1, MIN, MIN-1 and at inconsistent sign/padding digits. Non-trivial: the value lies within 1 of a '
        'representability boundary of some target, or is negative; distinct = distinct request lines')


def configs(tier):
    main = core.cfg_names(full=(tier == 'thorough'))
    return CAST_TYPES + [c for c in main if c not in CAST_TYPES]


def budget(cfg, tier):
    return 3000 if tier == 'quick' else 30000


def requests(cfg, rng, n, tier, part, nparts, st):
    main = cfg.name in core.cfg_names(full=(tier == 'thorough'))
    if cfg.name in CAST_TYPES:
        if cfg.bits == 8:
            for v in range(256):
                yield 'btry', (cfg.val(v),)
            st['exhaustive'].append('%s: all source values -> every target type' % cfg.name)
        for _ in range(n * 2 // 3):
            yield 'btry', (cast_source(cfg, rng),)
    if main:
        for _ in range(n // 3):
            r = rng.random()
            if r < 0.4:
                p = prim_cfg(rng.choice(PRIMS)[0])
                d = rng.choice((p.min, p.max, p.min + 1, p.max - 1, 0, -1, 1))
            elif r < 0.7:
                d = rng.choice((cfg.max, cfg.max + 1, cfg.min, cfg.min - 1, rng.choice((1, -1)) * (1 << rng.randrange(0, 128)) + rng.choice((-1, 0, 1))))
            else:
                d = rng.choice((1, -1)) * rng.getrandbits(rng.choice((7, 8, 15, 16, 31, 32, 63, 64, 127, 128)))
            d = max(-(1 << 127), min((1 << 128) - 1, d))
            c = rng.choice((0, 0x41, 0xff, 0x100, 0xd7ff, 0xe000, 0xffff, 0x10000, 0x10ffff, rng.randrange(0xd800), rng.randrange(0xe000, 0x110000)))
            yield 'fpt', (d, rng.getrandbits(1), c)
        if not cfg.signed:
            for _ in range(max(50, n // 10)):
                yield 'dig', (gen.value(cfg, rng), rng.choice((0, 1, cfg.B - 1, rng.getrandbits(cfg.dbits))))


def model(cfg, ctx, group, args):
    exp = {}
    cls = set()
    if group == 'btry':
        (v,) = args
        for n in CAST_TYPES:
            t = core.Cfg(n)
            exp['try_' + n] = Ok(v) if t.fits(v) else Err('TryFrom')
            if v in (t.max, t.max + 1, t.min, t.min - 1) and t.bits < cfg.bits + (1 if cfg.signed != t.signed else 0):
                cls.add('value at a representability boundary of a narrower target')
        for pn, sg, bits in PRIMS:
            p = prim_cfg(pn)
            exp['try_' + pn] = Ok(v) if p.fits(v) else Err('TryFrom')
            if v in (p.max, p.max + 1, p.min, p.min - 1) and bits <= cfg.bits:
                cls.add('value at a representability boundary of a primitive target')
        if v < 0:
            cls.add('negative source')
        if not cls:
            cls.add('plain')
    elif group == 'fpt':
        d, b, c = args
        for pn, sg, bits in PRIMS:
            p = prim_cfg(pn)
            fit = p.fits(d)
            if cfg.signed:
                if sg:
                    exp['from_' + pn] = Some(d) if fit and cfg.bits >= bits else None
                else:
                    exp['from_' + pn] = Some(d) if fit and cfg.bits > bits else None
            else:
                if sg:
                    exp['tryfrom_' + pn] = (Some(Ok(d)) if d >= 0 else Some(Err('TryFrom'))) if fit and cfg.bits >= bits else None
                else:
                    exp['from_' + pn] = Some(d) if fit and cfg.bits >= bits else None
        i128 = core.Cfg('pi128')
        for pn in ('u8', 'u16', 'u32', 'u64', 'u128', 'i8', 'i16', 'i32', 'i64'):
            exp['calib_try_' + pn] = (Some(Ok(d)) if prim_cfg(pn).fits(d) else Some(Err('TryFrom'))) if i128.fits(d) else None
        exp['from_bool'] = int(b)
        if not cfg.signed:
            exp['from_char'] = Some(c) if cfg.bits >= 32 else None
        if d < 0:
            cls.add('negative primitive source')
        else:
            cls.add('plain:non-negative primitive source')
    else:
        v, d = args
        p = cfg.pat(v)
        le = p.to_bytes(cfg.bytes, 'little')
        exp['from_digits_hex'] = ('%x' % p).encode()
        exp['from_array_hex'] = ('%x' % p).encode()
        exp['digits_of_parsed'] = le
        exp['into_array'] = le
        exp['digits_mut_roundtrip'] = p
        exp['from_digit_hex'] = ('%x' % d).encode()
        exp['from_digit'] = d
        cls.add('digit accessors')
    return exp, cls


REQUIRED = ['value at a representability boundary of a narrower target', 'value at a representability boundary of a primitive target',
            'negative source', 'negative primitive source', 'digit accessors']


def floors(st, tier):
    out = ['class %r never observed' % c for c in REQUIRED if st['classes'].get(c, 0) == 0]
    for n in CAST_TYPES:
        if st['ops'].get('try_' + n, 0) < 200 * len(CAST_TYPES):
            out.append('target try_%s saw only %d events' % (n, st['ops'].get('try_' + n, 0)))
    return out
