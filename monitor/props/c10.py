"""C10 — parsing accepts exactly the integer grammar and returns the denoted value."""
import math
import core
import gen
from core import PANIC, Some, Ok, Err, OneOf
from props.common import default_encode, default_decode

PROP = 'C10'
BIN = 'c10'
# dense digit-count pass (run.dense_table): width-dependent estimates (digit counts, exponents) make every width interesting here
DENSE = {'quick': {64: 128}, 'thorough': {8: 1024, 16: 512, 32: 256}}
DENSE_REQS = {'quick': 60, 'thorough': 60}   # ~7400 types in the thorough tier: the width-sensitive family plus a sample of 120 requests each
DENSE_MODES = ('dev',)
SIG = {'ps': 'sd', 'pd': 'sd'}
encode = default_encode(SIG)
decode = default_decode(SIG)
TASK_REQS = 2500
DIGITS = b'0123456789abcdefghijklmnopqrstuvwxyz'
RULE = ('strings: canonical numerals of structured values (incl. MAX, MAX+1, MIN, MIN-1) in every radix 2..=36, mutated with 0..3x '
        'capacity leading zeros, +/- prefixes, case changes, one digit >= radix, a second sign, ASCII space / underscore, non-ASCII '
        'UTF-8 (full-width digits, accents, emoji), invalid UTF-8, lengths straddling the chunk size and the digit capacity, the empty '
        'string and lone signs; every byte value 0..=255 in every radix in five string shapes (on the three-digit type of each digit size); out-of-range radices. Digit slices for radix 2..=256 in both orders with the same mutations. Validity is '
        'decided by an explicit grammar check in the monitor (not Python int()). Non-trivial: leading zeros, sign, boundary value, '
        'overflow, invalid input, chunk/capacity boundary length; distinct = distinct request lines')


def configs(tier):
    return core.cfg_names(full=(tier == 'thorough'))


def budget(cfg, tier):
    base = 4000 if tier == 'quick' else 40000
    if cfg.bits == 8:
        return base * 4   # several tasks, so that the exhaustive small-alphabet strings are spread over workers
    if cfg.n >= 1024:
        return 60 if tier == 'quick' else 300
    if cfg.n >= 128:
        return base // 10
    return base


def to_digits(v, r):
    """big-endian digit list of v >= 0 in radix r (at least one digit)"""
    if v == 0:
        return [0]
    if r & (r - 1) == 0 and r <= 256:
        k = r.bit_length() - 1
        out = []
        while v:
            out.append(v & (r - 1))
            v >>= k
        return out[::-1]
    # divide and conquer for big values
    def rec(v, r, p, width):
        if width <= 32:
            out = []
            for _ in range(width):
                v, d = divmod(v, r)
                out.append(d)
            return out[::-1]
        half = width // 2
        hi, lo = divmod(v, r ** half)
        return rec(hi, r, None, width - half) + rec(lo, r, None, half)
    width = int(v.bit_length() / math.log2(r)) + 2
    ds = rec(v, r, None, width)
    i = 0
    while i < len(ds) - 1 and ds[i] == 0:
        i += 1
    return ds[i:]


def capacity(cfg, r):
    """number of radix-r digits of the largest unsigned BITS-bit pattern"""
    return len(to_digits(cfg.mask, r))


def numeral(v, r, rng=None, upper=0):
    ds = to_digits(abs(v), r)
    s = bytes(DIGITS[d] for d in ds)
    if upper == 1:
        s = s.upper()
    elif upper == 2 and rng is not None:
        s = bytes((c - 32 if 97 <= c <= 122 and rng.random() < 0.5 else c) for c in s)
    return s


NONASCII = ['１'.encode(), 'é'.encode(), '\U0001f600'.encode(), '٣'.encode(), '²'.encode(), '−'.encode(), ' '.encode()]
BADUTF8 = [b'\xff', b'\xc3', b'\xe2\x82', b'\x80', b'\xf0\x9f\x98', b'\xc0\xaf']


def gen_string(cfg, rng):
    r = rng.choice((2, 3, 4, 5, 7, 8, 10, 10, 10, 16, 16, 32, 36, 36, rng.randrange(2, 37), rng.randrange(2, 37)))
    rr = rng.random()
    if rr < 0.03:
        return rng.choice((b'', b'+', b'-', b'++', b'--', b'+-', b'-+', b' ', b'_', b'0', b'-0', b'+0', b'00')), r
    if rr < 0.06:
        return numeral(gen.value(cfg, rng), r), rng.choice((0, 1, 37, 38, 255, 256, 257, 2 ** 32 - 1, 64))
    # value
    vr = rng.random()
    if vr < 0.35:
        v = rng.choice((cfg.max, cfg.max + 1, cfg.min, cfg.min - 1, cfg.max - 1, cfg.min + 1, cfg.mask, cfg.mask + 1, cfg.max * r, cfg.max + r, 0))
    elif vr < 0.5:
        k = rng.randrange(0, capacity(cfg, r) + 2)
        v = rng.choice((1, -1)) * (r ** k + rng.choice((-1, 0, 1)))
    elif vr < 0.6:
        v = rng.choice((1, -1)) * rng.getrandbits(cfg.bits + rng.choice((0, 1, 2, 8, 64)))
    else:
        v = gen.value(cfg, rng)
        if not cfg.signed and rng.random() < 0.1:
            v = -v
    body = numeral(v, r, rng, upper=rng.choice((0, 0, 1, 2)))
    neg = v < 0
    # leading zeros
    zr = rng.random()
    cap = capacity(cfg, r)
    if zr < 0.25:
        nz = rng.choice((1, 2, 3, rng.randrange(1, cap + 2)))
    elif zr < 0.40:
        nz = max(0, cap - len(body) + rng.choice((-1, 0, 1, 2)))
    elif zr < 0.50:
        nz = rng.randrange(cap, 3 * cap + 2)
    else:
        nz = 0
    body = b'0' * nz + body
    sign = b'-' if neg else rng.choice((b'', b'', b'+'))
    s = sign + body
    # mutations
    m = rng.random()
    if m < 0.10:
        pos = rng.randrange(len(sign), len(s) + 1)
        bad = rng.choice((b' ', b'_', b'.', b',', b'/', b':', b'@', b'[', b'`', b'{', b'\t', b'\n', b'\x00', b'-', b'+'))
        if rng.random() < 0.4:
            # any ASCII byte that is not a letter or digit (the fixed pool above only has the neighbours of the digit / letter ranges)
            c = rng.randrange(128)
            while chr(c).isalnum():
                c = rng.randrange(128)
            bad = bytes([c])
        s = s[:pos] + bad + s[pos:]
    elif m < 0.18 and r < 36:
        pos = rng.randrange(len(sign), len(s))
        badd = DIGITS[rng.randrange(r, 36)]
        if rng.random() < 0.5:
            badd = bytes([badd]).upper()[0]
        s = s[:pos] + bytes([badd]) + s[pos + 1:]
    elif m < 0.23:
        pos = rng.randrange(0, len(s) + 1)
        na = rng.choice(NONASCII)
        if rng.random() < 0.6:
            # any Unicode scalar value above U+007F (2-, 3- and 4-byte encodings): bytes of a multi-byte character must never be read as digits
            cp = rng.choice((rng.randrange(0x80, 0x800), rng.randrange(0x80, 0x100), rng.randrange(0x800, 0xd800), rng.randrange(0xe000, 0x10000), rng.randrange(0x10000, 0x110000)))
            na = chr(cp).encode()
        s = s[:pos] + na + s[pos:]
    elif m < 0.27:
        pos = rng.randrange(0, len(s) + 1)
        bu = rng.choice(BADUTF8)
        if rng.random() < 0.5:
            bu = bytes([rng.randrange(0x80, 0x100)])   # a lone byte >= 0x80 is never valid UTF-8
        s = s[:pos] + bu + s[pos:]
    elif m < 0.30:
        s = rng.choice((b'+', b'-')) + s
    elif m < 0.33:
        s = rng.choice((b' ', b'')) + s + rng.choice((b' ', b'\n'))
    return s, r


def gen_slice(cfg, rng):
    r = rng.choice((2, 4, 16, 256, 256, 3, 8, 10, 32, 64, 100, 128, 255, rng.randrange(2, 257), rng.randrange(2, 257)))
    rr = rng.random()
    if rr < 0.04:
        return bytes(rng.choice(([], [0], [0, 0], [1]))), rng.choice((0, 1, 257, 258, 2 ** 32 - 1, 2, 256))
    vr = rng.random()
    if vr < 0.3:
        v = rng.choice((cfg.mask, cfg.mask + 1, cfg.mask - 1, cfg.mod >> 1, (cfg.mod >> 1) - 1, 0, 1, cfg.mask * r))
    elif vr < 0.45:
        v = r ** rng.randrange(0, capacity(cfg, r) + 2) + rng.choice((-1, 0, 1))
    elif vr < 0.55:
        v = rng.getrandbits(cfg.bits + rng.choice((0, 1, 8)))
    else:
        v = cfg.pat(gen.value(cfg, rng))
    ds = to_digits(max(v, 0), r)
    cap = capacity(cfg, r)
    zr = rng.random()
    if zr < 0.25:
        ds = [0] * rng.choice((1, 2, rng.randrange(1, cap + 2))) + ds
    elif zr < 0.4:
        ds = [0] * max(0, cap - len(ds) + rng.choice((-1, 0, 1, 2))) + ds
    elif zr < 0.5:
        ds = [0] * rng.randrange(cap, 2 * cap + 2) + ds
    if rng.random() < 0.08 and r < 256:
        ds[rng.randrange(len(ds))] = rng.randrange(r, 256)
    if rng.random() < 0.5:
        ds = ds[::-1]   # so that the little-endian reading is the 'intended' one
    return bytes(ds), r


def requests(cfg, rng, n, tier, part, nparts, st):
    if part == 0:
        # every radix at least once with the boundary values
        for r in range(2, 37):
            for v in (cfg.max, cfg.max + 1, cfg.min, cfg.min - 1, 0):
                s = (b'-' if v < 0 else b'') + numeral(v, r)
                yield 'ps', (s, r)
                yield 'ps', ((b'-' if v < 0 else b'+') + b'0' * (capacity(cfg, r) + 1) + numeral(v, r), r)
        for r in list(range(2, 257, 1 if cfg.bits <= 320 else 17)):
            ds = to_digits(cfg.mask, r)
            yield 'pd', (bytes(ds), r)
            yield 'pd', (bytes([0] * (len(ds) + 1) + ds), r)
            yield 'pd', (bytes(to_digits(cfg.mask + 1, r)), r)
    if part == 0 and cfg.n == 3 and not st.get('no_sweeps'):
        # every byte value 0..=255 in every string radix, alone, next to a valid digit, inside a 17-character numeral and as an aligned run of eight at the
        # most significant end (character classification by arithmetic tricks or word-at-a-time scanning must reject exactly the non-digits)
        for r in range(2, 37):
            for b in range(256):
                c = bytes([b])
                for x in (c, b'1' + c, c + b'1', b'11111111' + c + b'11111111', c * 8 + b'1'):
                    yield 'ps', (x, r)
        st['exhaustive'].append('%s: every byte value 0..=255 x every radix 2..=36 in 5 string shapes' % cfg.name)
    # bounded by the budget of the configuration: every bit length when affordable, otherwise a seed-dependent stride
    if cfg.bits == 8:
        # every string of length <= 4 over a small alphabet (signs, digits, letters, space, underscore) in four radices
        import itertools
        alpha = [b'+', b'-', b'0', b'1', b'9', b'a', b'Z', b' ', b'_']
        allstr = [b''] + [b''.join(t) for L in (1, 2, 3, 4) for t in itertools.product(alpha, repeat=L)]
        lo_, hi_ = (len(allstr) * part // nparts, len(allstr) * (part + 1) // nparts)
        for x in allstr[lo_:hi_]:
            for r in (2, 10, 16, 36):
                yield 'ps', (x, r)
        st['exhaustive'].append('%s: every string of length <= 4 over the alphabet "+-019aZ _" in radix 2, 10, 16, 36' % cfg.name)
    stride = max(1, -(-(cfg.bits + 1) // max(256, 2 * n * nparts)))
    ks = list(range(rng.randrange(stride), cfg.bits + 2, stride))
    lo, hi = (len(ks) * part // nparts, len(ks) * (part + 1) // nparts)
    for k in ks[lo:hi]:
        r = rng.choice((10, 10, 16, 36, 7))
        for v in ((1 << k) - 1, 1 << k):
            yield 'ps', (numeral(v, r), r)
            if cfg.signed:
                yield 'ps', (b'-' + numeral(v, r), r)
    for _ in range(n):
        if rng.random() < 0.65:
            yield 'ps', gen_string(cfg, rng)
        else:
            yield 'pd', gen_slice(cfg, rng)


def digit_val(c):
    if 48 <= c <= 57:
        return c - 48
    if 97 <= c <= 122:
        return c - 87
    if 65 <= c <= 90:
        return c - 55
    return 255


def parse_str(cfg, s, r, cls=None):
    """expected Result of from_str_radix for a valid-UTF-8 byte string s and an in-range radix"""
    if len(s) == 0:
        return Err('Empty')
    neg = False
    body = s
    if s[0:1] == b'+':
        body = s[1:]
    elif s[0:1] == b'-' and cfg.signed:
        neg = True
        body = s[1:]
    if len(body) == 0:
        return Err('InvalidDigit')
    vals = [digit_val(c) for c in body]
    if any(d >= r for d in vals):
        # never accepted; must be InvalidDigit when too short to overflow
        if r ** len(body) - 1 <= cfg.max:
            return Err('InvalidDigit')
        return OneOf(Err('InvalidDigit'), Err('PosOverflow'), Err('NegOverflow'))
    v = 0
    if r & (r - 1) == 0:
        k = r.bit_length() - 1
        for d in vals:
            v = (v << k) | d
    else:
        v = int(body, r)  # body is known to consist of valid digits only
    if neg:
        v = -v
    if cfg.fits(v):
        return Ok(v)
    return Err('NegOverflow' if neg else 'PosOverflow')


def model(cfg, ctx, group, args):
    s, r = args
    exp = {}
    cls = set()
    if group == 'ps':
        try:
            s.decode('utf8')
            utf8 = True
        except UnicodeDecodeError:
            utf8 = False
        bad_radix = not (2 <= r <= 36)
        if bad_radix:
            cls.add('radix out of range')
        res = None
        if not bad_radix and utf8:
            res = parse_str(cfg, s, r)
        res10 = parse_str(cfg, s, 10) if utf8 else None
        if not utf8:
            exp['from_str_radix'] = None
            exp['from_str'] = None
            exp['parse_str_radix'] = None
            exp['parse_bytes'] = None if not bad_radix else OneOf(None, PANIC)
            cls.add('invalid UTF-8 (parse_bytes only)')
        else:
            exp['from_str'] = Some(res10)
            if bad_radix:
                exp['from_str_radix'] = PANIC
                exp['parse_str_radix'] = PANIC
                exp['parse_bytes'] = PANIC
            else:
                exp['from_str_radix'] = Some(res)
                if isinstance(res, OneOf) or res[0] == 'E':
                    exp['parse_str_radix'] = core.ANY   # documented to panic, but the property does not speak about this helper's failure mode
                    exp['parse_bytes'] = None
                else:
                    exp['parse_str_radix'] = Some(res[1])
                    exp['parse_bytes'] = Some(res[1])
        if res is not None:
            if isinstance(res, OneOf):
                cls.add('invalid character in a string long enough to overflow')
            elif res[0] == 'E':
                cls.add('error ' + res[1])
            else:
                v = res[1]
                body = s.lstrip(b'+-')
                nz = len(body) - len(body.lstrip(b'0'))
                cap = capacity(cfg, r)
                rc = 'radix 2/4/16 (packed path)' if r in (2, 4, 16) else ('other power-of-two radix' if r & (r - 1) == 0 else 'general radix')
                if nz and len(body) > cap:
                    cls.add('leading zeros beyond the digit capacity, ' + rc)
                elif nz:
                    cls.add('leading zeros')
                if v in (cfg.max, cfg.min):
                    cls.add('value exactly MAX or MIN, ' + rc)
                if s[0:1] in (b'+', b'-'):
                    cls.add('explicit sign')
                if len(body) in (cap, cap - 1):
                    cls.add('length at the digit capacity, ' + rc)
                if not cls:
                    cls.add('plain:' + rc)
    else:
        bad_radix = not (2 <= r <= 256)
        if bad_radix:
            exp['from_radix_be'] = PANIC
            exp['from_radix_le'] = PANIC
            cls.add('slice radix out of range')
        else:
            for nm, ds in (('from_radix_be', list(s)), ('from_radix_le', list(s)[::-1])):
                if any(d >= r for d in ds):
                    exp[nm] = None
                    cls.add('slice digit >= radix')
                    continue
                v = 0
                if r & (r - 1) == 0:
                    k = r.bit_length() - 1
                    for d in ds:
                        v = (v << k) | d
                else:
                    for d in ds:
                        v = v * r + d
                if v <= cfg.mask:
                    exp[nm] = Some(v)
                    cap = capacity(cfg, r)
                    if len(ds) > cap:
                        cls.add('slice with zero digits beyond the capacity, radix %s' % ('2/4/16' if r in (2, 4, 16) else ('256' if r == 256 else 'other')))
                    if v == cfg.mask:
                        cls.add('slice value exactly the all-ones pattern')
                else:
                    exp[nm] = None
                    cls.add('slice value does not fit')
            if len(s) == 0:
                cls.add('empty slice')
        if not cls:
            cls.add('plain:slice')
    return exp, cls


REQUIRED = ['radix out of range', 'invalid UTF-8 (parse_bytes only)', 'error Empty', 'error InvalidDigit', 'error PosOverflow', 'error NegOverflow',
            'invalid character in a string long enough to overflow', 'explicit sign', 'leading zeros',
            'slice radix out of range', 'slice digit >= radix', 'slice value does not fit', 'empty slice', 'slice value exactly the all-ones pattern'] + \
    ['%s, %s' % (c, rc) for c in ('leading zeros beyond the digit capacity', 'value exactly MAX or MIN', 'length at the digit capacity')
     for rc in ('radix 2/4/16 (packed path)', 'other power-of-two radix', 'general radix')] + \
    ['slice with zero digits beyond the capacity, radix %s' % x for x in ('2/4/16', '256', 'other')]


def floors(st, tier):
    return ['class %r never observed' % c for c in REQUIRED if st['classes'].get(c, 0) == 0]


def dense_requests(cfg, rng, n, st):
    """dense digit-count pass: the numerals of MAX, MAX+1, MIN, MIN-1 and of the largest power of the radix in every string radix (with and
    without leading zeros), and the digit slices of the all-ones pattern (+1) in a few slice radices"""
    for r in (range(2, 37) if cfg.bits <= 1024 else (2, 3, 7, 10, 16, 36)):
        cap = capacity(cfg, r)
        for v in (cfg.max, cfg.max + 1, cfg.min, cfg.min - 1, r ** (cap - 1), r ** (cap - 1) - 1):
            s = (b'-' if v < 0 else b'') + numeral(v, r)
            yield 'ps', (s, r)
        v = rng.choice((cfg.max, cfg.min, cfg.max + 1))
        yield 'ps', ((b'-' if v < 0 else b'+') + b'0' * rng.choice((1, 2, cap, cap + 1)) + numeral(v, r), r)
    for r in (2, 3, 4, 10, 16, 100, 255, 256, rng.randrange(2, 257)):
        ds = to_digits(cfg.mask, r)
        yield 'pd', (bytes(ds), r)
        yield 'pd', (bytes(ds[::-1]), r)
        yield 'pd', (bytes([0] * rng.choice((1, 2, len(ds))) + ds), r)
        yield 'pd', (bytes(to_digits(cfg.mask + 1, r)), r)
