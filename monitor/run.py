#!/usr/bin/env python3
"""Orchestration: build the driver from the repository's current working tree, fan the
workload out over worker processes (each: generate requests -> run the driver in every
build mode -> judge every outcome with the reference model), merge what was observed,
write evidence, print verdict lines.

exit 0 = held on everything observed, 1 = VIOLATION, 2 = INCONCLUSIVE.
"""
import concurrent.futures as cf
import importlib
import json
import os
import random
import subprocess
import sys
import time
import traceback
from collections import Counter

HERE = os.path.dirname(os.path.abspath(__file__))
ROOT = os.path.dirname(HERE)
sys.path.insert(0, HERE)

import core  # noqa: E402
from core import PANIC, ANY, NOPANIC, OneOf, Pred, matches, parse_part  # noqa: E402

BUILD = os.path.join(ROOT, '.build')
HARNESS = os.path.join(ROOT, 'harness')
MAX_VIOL_PER_TASK = 40
NCPU = min(16, os.cpu_count() or 4)


def repo_path():
    return os.path.realpath(os.environ.get('VERIF_REPO', '/repo'))


def target_dir(variant):
    rp = repo_path()
    tag = '' if rp == '/repo' else '-' + core.h64(rp).to_bytes(8, 'little').hex()[:8]
    return os.path.join(BUILD, 'target%s%s' % (('-' + variant) if variant else '', tag))


def ensure_link():
    """The driver crate depends on bnum through ../.build/repo (a symlink to /repo). For VERIF_REPO=<other checkout> (development aid:
    evaluating a patched scratch copy without touching /repo) a private copy of the manifest with that path is used instead."""
    os.makedirs(BUILD, exist_ok=True)
    link = os.path.join(BUILD, 'repo')
    try:
        cur = os.path.realpath(link) if os.path.islink(link) else None
    except OSError:
        cur = None
    if cur != '/repo':
        tmp = link + '.tmp%d' % os.getpid()
        os.symlink('/repo', tmp)
        os.replace(tmp, link)
    rp = repo_path()
    if rp != '/repo':
        d = harness_dir()
        os.makedirs(d, exist_ok=True)
        src = os.path.join(d, 'src')
        if not os.path.islink(src):
            os.symlink(os.path.join(ROOT, 'harness', 'src'), src)
        with open(os.path.join(ROOT, 'harness', 'Cargo.toml')) as f:
            t = f.read().replace('path = "../.build/repo"', 'path = "%s"' % rp)
        with open(os.path.join(d, 'Cargo.toml'), 'w') as f:
            f.write(t)
        import shutil
        shutil.copy(os.path.join(ROOT, 'harness', 'Cargo.lock'), os.path.join(d, 'Cargo.lock'))


def harness_dir():
    rp = repo_path()
    if rp == '/repo':
        return os.path.join(ROOT, 'harness')
    return os.path.join(BUILD, 'harness-' + core.h64(rp).to_bytes(8, 'little').hex()[:8])


def out_root():
    """evidence/ and replays/ live in /verif only for runs against /repo itself"""
    rp = repo_path()
    if rp == '/repo':
        return ROOT
    d = os.path.join(BUILD, 'scratch-' + core.h64(rp).to_bytes(8, 'little').hex()[:8])
    os.makedirs(d, exist_ok=True)
    return d


def random_cfgs(seed, pid, k=3):
    """k random digit counts per digit type (seeded): the quantifier says 'every N >= 1'; the fixed tables cannot, a rotating sample can"""
    rng = random.Random(core.h64('randcfg/%d/%s' % (seed, pid)))
    out = {}
    for d, nmax in ((8, 1024), (16, 512), (32, 256), (64, 128)):
        ns = set()
        while len(ns) < k:
            r = rng.random()
            if r < 0.4:
                n = rng.randrange(1, 41)
            elif r < 0.8:
                n = rng.randrange(41, min(nmax, 300) + 1)
            else:
                n = rng.randrange(min(nmax, 300), nmax + 1)
            ns.add(n)
        out[d] = sorted(ns)
    return out


def span(ns):
    """compact text for a sorted list of integers: 1-32,40,64-128"""
    out = []
    i = 0
    ns = sorted(ns)
    while i < len(ns):
        j = i
        while j + 1 < len(ns) and ns[j + 1] == ns[j] + 1:
            j += 1
        out.append(str(ns[i]) if i == j else '%d-%d' % (ns[i], ns[j]))
        i = j + 1
    return ','.join(out)


def dense_table(prop, tier, full):
    """digit counts of the dense pass: every N in 1..=bound per digit type that the tier's fixed table does not already contain.
    prop.DENSE = {'quick': {digit bits: bound}, 'thorough': {...}} overrides the default bounds."""
    default = {'quick': {8: 32, 16: 32, 32: 32, 64: 32}, 'thorough': {8: 128, 16: 128, 32: 128, 64: 128}}
    bounds = dict(default[tier])
    bounds.update(getattr(prop, 'DENSE', {}).get(tier, {}))
    have = core.FULL_CFGS if full else core.QUICK_CFGS
    # plus the neighbours of the power-of-two digit counts (thresholds of bit masks, block sizes, narrow counters) up to the 8192-bit limit
    around = {8: [63, 64, 65, 127, 128, 129, 255, 256, 257, 511, 512, 513], 16: [63, 64, 65, 127, 128, 129, 255, 256, 257, 511, 512],
              32: [63, 64, 65, 127, 128, 129, 255, 256], 64: [63, 64, 65, 127, 128]}
    out = {}
    for d in (8, 16, 32, 64):
        b = bounds.get(d, 0)
        ns = set(range(1, b + 1)) | (set(around[d]) if b > 0 else set())
        out[d] = sorted(n for n in ns if n not in have[d])
    return out


def build_random_table(bins, cfgs, mode, variant='rand'):
    """private copy of the driver crate whose configuration table is `cfgs`; returns {bin: path}"""
    ensure_link()
    rp = repo_path()
    d = os.path.join(BUILD, 'harness-%s-%s%s' % (variant, '_'.join(bins), '' if rp == '/repo' else '-' + core.h64(rp).to_bytes(8, 'little').hex()[:8]))
    src = os.path.join(d, 'src')
    os.makedirs(os.path.join(src), exist_ok=True)
    real = os.path.join(ROOT, 'harness', 'src')
    for f in os.listdir(real):
        dst = os.path.join(src, f)
        if f == 'table.rs':
            continue
        if not os.path.lexists(dst):
            os.symlink(os.path.join(real, f), dst)
    ty = {8: ('BUintD8', 'BIntD8'), 16: ('BUintD16', 'BIntD16'), 32: ('BUintD32', 'BIntD32'), 64: ('BUint', 'BInt')}
    rows = ',\n'.join('            (u%dx%d, i%dx%d, %s<%d>, %s<%d>, u%d, %d)' % (dg, n, dg, n, ty[dg][0], n, ty[dg][1], n, dg, n) for dg in (8, 16, 32, 64) for n in cfgs[dg])
    with open(os.path.join(ROOT, 'harness', 'src', 'table.rs')) as f:
        t = f.read()
    prims = t[t.index('/// The primitive twins'):]
    body = ('//! GENERATED at run time by monitor/run.py (random-configuration pass)\n#[macro_export]\nmacro_rules! for_cfgs {\n    ($cb:ident ; $($pre:tt)*) => {\n'
            '        $cb! { $($pre)* ;\n%s\n        }\n    };\n}\n\n%s' % (rows, prims))
    tp = os.path.join(src, 'table.rs')
    old = open(tp).read() if os.path.exists(tp) else None
    if old != body:
        with open(tp, 'w') as f:
            f.write(body)
    with open(os.path.join(ROOT, 'harness', 'Cargo.toml')) as f:
        ct = f.read().replace('path = "../.build/repo"', 'path = "%s"' % repo_path())
    # a package name of its own: the private crates of different properties share one target directory, and cargo derives the artifact hash of
    # the library from the package name - with the same name they would overwrite each other's rlib (different tables, same file name)
    pkg = 'bnum-verif-harness-%s-%s' % (variant, '-'.join(bins))
    ct = ct.replace('name = "bnum-verif-harness"', 'name = "%s"' % pkg, 1).replace('[dependencies]', '[lib]\nname = "bnum_verif_harness"\npath = "src/lib.rs"\n\n[dependencies]', 1)
    ctp = os.path.join(d, 'Cargo.toml')
    if not os.path.exists(ctp) or open(ctp).read() != ct:
        with open(ctp, 'w') as f:
            f.write(ct)
    import shutil
    lock = os.path.join(d, 'Cargo.lock')
    if not os.path.exists(lock):
        with open(os.path.join(ROOT, 'harness', 'Cargo.lock')) as f:
            lt = f.read().replace('name = "bnum-verif-harness"', 'name = "%s"' % pkg)
        with open(lock, 'w') as f:
            f.write(lt)
    cmd = ['cargo', 'build', '--offline', '--manifest-path', os.path.join(d, 'Cargo.toml')] + (['--release'] if mode == 'rel' else [])
    for b in bins:
        cmd += ['--bin', b]
    env = cargo_env()
    env['CARGO_TARGET_DIR'] = target_dir(variant)
    p = subprocess.run(cmd, env=env, stdout=subprocess.PIPE, stderr=subprocess.STDOUT, text=True)
    if p.returncode != 0:
        errs = '\n'.join([l for l in p.stdout.splitlines() if l.startswith('error')][:15])
        raise BuildError('random-configuration build failed (%s):\n%s' % (cfgs, errs or p.stdout[-1500:]))
    return {b: os.path.join(env['CARGO_TARGET_DIR'], 'release' if mode == 'rel' else 'debug', b) for b in bins}


def cargo_env():
    env = dict(os.environ)
    env['CARGO_NET_OFFLINE'] = 'true'
    env.pop('RUSTFLAGS', None)
    return env


class BuildError(Exception):
    pass


def build(bins, mode, full=False, toolchain=None, features=(), log=None, extra_env=None, variant=None, extra_args=()):
    """mode: 'dev' | 'rel'. Returns dict bin -> path."""
    ensure_link()
    variant = variant if variant is not None else ('full' if full else '')
    tdir = target_dir(variant)
    cmd = ['cargo']
    if toolchain:
        cmd.append('+' + toolchain)
    cmd += ['build', '--offline', '--manifest-path', os.path.join(harness_dir(), 'Cargo.toml')]
    if mode == 'rel':
        cmd.append('--release')
    feats = list(features) + (['full'] if full else [])
    if feats:
        cmd += ['--features', ','.join(feats)]
    for b in bins:
        cmd += ['--bin', b]
    cmd += list(extra_args)
    env = cargo_env()
    env['CARGO_TARGET_DIR'] = tdir
    if extra_env:
        env.update(extra_env)
    t0 = time.time()
    p = subprocess.run(cmd, env=env, stdout=subprocess.PIPE, stderr=subprocess.STDOUT, text=True)
    os.makedirs(os.path.join(ROOT, 'logs'), exist_ok=True)
    with open(os.path.join(ROOT, 'logs', 'build-%s-%s%s.log' % ('_'.join(bins)[:40], mode, '-' + variant if variant else '')), 'w') as f:
        f.write(' '.join(cmd) + '\n' + p.stdout)
    if p.returncode != 0:
        tail = '\n'.join([l for l in p.stdout.splitlines() if l.startswith('error')][:20])
        raise BuildError('cargo build failed (%s, %s):\n%s' % (bins, mode, tail or p.stdout[-2000:]))
    sub = 'release' if mode == 'rel' else 'debug'
    return {b: os.path.join(tdir, sub, b) for b in bins}, time.time() - t0


# ------------------------------------------------------------------ driver execution

def run_driver(binpath, text, timeout, argv_prefix=(), env=None):
    """Returns (header dict, list of response lines) or raises DriverFailure."""
    try:
        p = subprocess.run(list(argv_prefix) + [binpath], input=text, capture_output=True, text=True, timeout=timeout, env=env)
    except subprocess.TimeoutExpired as e:
        out = e.stdout or ''
        if isinstance(out, bytes):
            out = out.decode('utf8', 'replace')
        raise DriverFailure('watchdog timeout after %ss' % timeout, out.count('\n'))
    lines = p.stdout.split('\n')
    if lines and lines[-1] == '':
        lines.pop()
    if not lines or not lines[0].startswith('#H'):
        raise DriverFailure('no header from driver (rc=%s, stderr=%s)' % (p.returncode, p.stderr[-300:]), 0)
    hdr = dict(kv.split('=') for kv in lines[0].split()[1:])
    if p.returncode != 0:
        raise DriverFailure('driver exited rc=%s stderr=%s' % (p.returncode, p.stderr[-300:]), len(lines) - 1)
    return hdr, lines[1:]


class DriverFailure(Exception):
    def __init__(self, msg, nresp):
        Exception.__init__(self, msg)
        self.nresp = nresp


# ------------------------------------------------------------------ judging

def judge_line(prop, cfg, dbg, group, args, resp, st, reqline, mode, endian='little'):
    """Judge one response line. Updates stats `st`."""
    if resp.startswith('!'):
        st['inconclusive'].append('driver refused request %r: %s' % (reqline, resp))
        return
    if ' | ' in resp:
        bpart, ppart = resp.split(' | ', 1)
    elif resp.endswith(' |'):
        bpart, ppart = resp[:-2], ''
    else:
        bpart, ppart = resp, None
    try:
        bobs = parse_part(bpart)
        pobs = dict((n, (r, o)) for n, r, o in parse_part(ppart)) if ppart else {}
    except Exception as e:  # malformed driver output is a machinery problem
        st['inconclusive'].append('unparsable driver output for %r: %s' % (reqline, e))
        return
    try:
        ctx = {'dbg': dbg, 'endian': endian, 'mode': mode}
        res = prop.model(cfg, ctx, group, args)
        exp, classes = res[0], res[1]
        extra = res[2] if len(res) > 2 else None
    except Exception:
        st['inconclusive'].append('model raised on %r: %s' % (reqline, traceback.format_exc()[-600:]))
        return
    nontrivial = False
    for c in classes:
        st['classes'][c] += 1
        if not c.startswith('plain'):
            nontrivial = True
    if nontrivial:
        st['nontrivial'].add(core.h64(reqline))
    st['requests'] += 1
    seen = {}
    for name, raw, obs in bobs:
        seen[name] = obs
        st['ops'][name] += 1
        st['events'] += 1
        if name not in exp:
            st['unmodelled'][name] += 1
            continue
        e = exp[name]
        if name.startswith('calib_'):
            # pure oracle self-check: a Rust primitive operation executed by the driver, no bnum code involved
            st['calib'] += 1
            if not matches(e, obs):
                st['oracle_mismatch'] += 1
                if len(st['oracle_mismatch_samples']) < 5:
                    st['oracle_mismatch_samples'].append({'request': reqline, 'op': name, 'model': repr(e), 'primitive': raw, 'mode': mode})
            continue
        loose = is_loose(e)
        ok_model = matches(e, obs)
        pr = pobs.get(name)
        if pr is not None and not isinstance(e, core.NoCalib):
            st['calib'] += 1
            praw, po = pr
            if not matches(e, po):
                st['oracle_mismatch'] += 1
                if len(st['oracle_mismatch_samples']) < 5:
                    st['oracle_mismatch_samples'].append({'request': reqline, 'op': name, 'model': repr(e), 'primitive': praw, 'bnum': raw, 'mode': mode})
                # the model is not trusted for this event: the primitive is the oracle
                ok = True if loose else matches(po, obs)
                if not ok:
                    add_violation(st, prop, cfg, mode, reqline, name, raw, 'primitive says ' + praw, 'bnum != primitive (model disagrees with primitive too)')
                continue
            if ok_model and not loose and not matches(po, obs):
                # model accepted both although they differ: cannot happen for exact expectations
                st['inconclusive'].append('comparator inconsistency on %r op %s' % (reqline, name))
        if not ok_model:
            add_violation(st, prop, cfg, mode, reqline, name, raw, repr(e), 'bnum != model')
    if extra is not None:
        # cross-outcome relations (round trips, involutions, defining equations)
        try:
            for name, ok, desc in extra(seen):
                st['events'] += 1
                st['ops'][name] += 1
                if not ok:
                    add_violation(st, prop, cfg, mode, reqline, name, desc, 'relation must hold', 'relation violated')
        except Exception:
            st['inconclusive'].append('relation check raised on %r: %s' % (reqline, traceback.format_exc()[-600:]))
    if len(st['samples']) < 3 and (len(reqline) < 240 or not st['samples']):
        st['samples'].append({'cfg': cfg.name, 'mode': mode, 'request': reqline[:600], 'response': resp[:600], 'classes': sorted(classes)[:6]})


def is_loose(e):
    if e is ANY or e is NOPANIC or isinstance(e, (OneOf, Pred)):
        return True
    if isinstance(e, tuple):
        return any(is_loose(x) for x in e)
    return False


def add_violation(st, prop, cfg, mode, reqline, name, observed, expected, why, extra=None):
    st['violations'] += 1
    key = (name, cfg.name, mode)
    if key in st['viol_keys'] or len(st['viol_list']) >= MAX_VIOL_PER_TASK:
        return
    st['viol_keys'].add(key)
    st['viol_list'].append({'property': prop.PROP, 'cfg': cfg.name, 'mode': mode, 'request': reqline, 'op': name,
                            'observed': observed, 'expected': expected, 'why': why})
    if extra:
        st['viol_list'][-1]['extra'] = extra


def new_stats():
    return {'requests': 0, 'events': 0, 'calib': 0, 'oracle_mismatch': 0, 'oracle_mismatch_samples': [], 'violations': 0,
            'viol_list': [], 'viol_keys': set(), 'ops': Counter(), 'classes': Counter(), 'unmodelled': Counter(),
            'nontrivial': set(), 'inconclusive': [], 'samples': [], 'cfgs': Counter(), 'modes': Counter(), 'exhaustive': []}


def merge(a, b):
    for k in ('requests', 'events', 'calib', 'oracle_mismatch', 'violations'):
        a[k] += b[k]
    for k in ('ops', 'classes', 'unmodelled', 'cfgs', 'modes'):
        a[k].update(b[k])
    a['nontrivial'] |= b['nontrivial']
    a['inconclusive'] += b['inconclusive'][:20]
    a['oracle_mismatch_samples'] = (a['oracle_mismatch_samples'] + b['oracle_mismatch_samples'])[:8]
    for v in b['viol_list']:
        key = (v['op'], v['cfg'], v['mode'])
        if key not in a['viol_keys']:
            a['viol_keys'].add(key)
            a['viol_list'].append(v)
    pool = a['samples'] + b['samples'][:3]

    def skey(x):
        cl = x.get('classes', []) if isinstance(x, dict) else []
        return (all(c.startswith('plain') for c in cl), len(x.get('request', '')) // 80 if isinstance(x, dict) else 0)
    pool.sort(key=skey)
    seen, out = Counter(), []
    for x in pool:
        c = x.get('cfg') if isinstance(x, dict) else None
        if seen[c] < 2:
            seen[c] += 1
            out.append(x)
    a['samples'] = out[:12]
    a['exhaustive'] += b['exhaustive']


def encode_req(prop, cfg, group, args):
    return cfg.name + ' ' + group + ' ' + ' '.join(prop.encode(cfg, group, args))


def run_task(task):
    """Worker entry. task = dict(prop, cfg, seed, part, nparts, tier, bins{mode:path}, n)"""
    st = new_stats()
    try:
        prop = importlib.import_module('props.' + task['prop'].lower())
        if task.get('custom'):
            prop.custom_task(task, st, sys.modules[__name__])
            return st
        cfg = core.Cfg(task['cfg'])
        rng = random.Random(task['seed'])
        if task.get('dense'):
            # dense digit-count pass: the property's own width-sensitive family if it defines one, plus a sample of its normal workload
            reqs = list(prop.dense_requests(cfg, rng, task['n'], st)) if hasattr(prop, 'dense_requests') else []
            more = list(prop.requests(cfg, rng, task['n'], task['tier'], task['part'], task['nparts'], st))
            cap = task['dense'] if cfg.bits <= 1024 else max(30, task['dense'] // 3)
            if len(more) > cap:
                more = [more[i] for i in sorted(rng.sample(range(len(more)), cap))]
            reqs += more
        else:
            reqs = list(prop.requests(cfg, rng, task['n'], task['tier'], task['part'], task['nparts'], st))
        if not reqs:
            return st
        all_reqs = reqs
        mode_filter = getattr(prop, 'mode_filter', None)
        for mode, binpath in task['bins'].items():
            reqs = [r for r in all_reqs if mode_filter(cfg, r[0], mode)] if mode_filter else all_reqs
            if not reqs:
                continue
            lines = [encode_req(prop, cfg, g, a) for g, a in reqs]
            text = '\n'.join(lines) + '\n'
            timeout = task.get('timeout', 600)
            try:
                hdr, resp = run_driver(binpath, text, timeout, task.get('argv_prefix', ()), task.get('env'))
            except DriverFailure as e:
                k = e.nresp
                st['inconclusive'].append('driver failure in %s mode on cfg %s: %s; last request answered: #%d; next request: %r'
                                          % (mode, cfg.name, e, k, lines[k] if 0 <= k < len(lines) else None))
                continue
            if len(resp) != len(lines):
                st['inconclusive'].append('driver answered %d of %d requests (%s, %s)' % (len(resp), len(lines), cfg.name, mode))
                continue
            dbg = hdr['dbg'] == '1'
            st['modes'][mode + ('(debug assertions)' if dbg else '(no debug assertions)')] += len(lines)
            st['cfgs'][cfg.name] += len(lines)
            for (g, a), line, r in zip(reqs, lines, resp):
                judge_line(prop, cfg, dbg, g, a, r, st, line, mode, hdr.get('endian', 'little'))
    except Exception:
        st['inconclusive'].append('worker crashed: ' + traceback.format_exc()[-1500:])
    return st


# ------------------------------------------------------------------ known findings

def load_known():
    p = os.path.join(ROOT, 'known_findings.json')
    if not os.path.exists(p):
        return []
    with open(p) as f:
        return [e for e in json.load(f).get('findings', []) if e.get('status') == 'known']


def known_match(v, known):
    for k in known:
        if k['property'] != v['property']:
            continue
        m = k.get('match', {})
        if 'ops' in m and v['op'] not in m['ops']:
            continue
        if 'cfg_regex' in m:
            import re
            if not re.match(m['cfg_regex'], v['cfg']):
                continue
        if 'request_regex' in m:
            import re
            if not re.search(m['request_regex'], v['request']):
                continue
        return k
    return None


# ------------------------------------------------------------------ main

def main(argv):
    import argparse
    ap = argparse.ArgumentParser()
    ap.add_argument('prop')
    ap.add_argument('tier', nargs='?', default=os.environ.get('VERIF_TIER', 'quick'))
    ap.add_argument('--replay')
    ap.add_argument('--jobs', type=int, default=int(os.environ.get('VERIF_JOBS', NCPU)))
    ap.add_argument('--cfg', help='restrict to these configurations (comma separated; debugging aid)')
    ap.add_argument('--ops', help='only report violations of these ops (comma separated; debugging aid)')
    ap.add_argument('--only-aux', action='store_true', help='skip the main workload, run only the auxiliary passes (debugging aid)')
    ap.add_argument('--scale', type=float, default=float(os.environ.get('VERIF_SCALE', '1')))
    a = ap.parse_args(argv)
    pid = a.prop.upper()
    prop = importlib.import_module('props.' + pid.lower())
    seed = int(os.environ.get('VERIF_SEED', '1'))
    t0 = time.time()
    if a.replay:
        return replay(prop, a.replay)
    tier = a.tier
    full = tier == 'thorough'
    print('[%s] tier=%s seed=%d repo=%s' % (pid, tier, seed, repo_path()), flush=True)
    st = new_stats()
    extra_cov = {}
    try:
        bins = {}
        for mode in prop.MODES if hasattr(prop, 'MODES') else ('dev', 'rel'):
            paths, dt = build([prop.BIN], mode, full=full)
            bins[mode] = paths[prop.BIN]
            print('[%s] built %s driver in %.0fs' % (pid, mode, dt), flush=True)
    except BuildError as e:
        print(str(e))
        print('INCONCLUSIVE property=%s reason=driver build failed (does the repository still compile?)' % pid)
        write_evidence(pid, tier, seed, st, time.time() - t0, prop, ['driver build failed'], {})
        return 2
    tasks = []
    if hasattr(prop, 'make_tasks'):
        try:
            tasks = prop.make_tasks(sys.modules[__name__], tier, seed, a.scale, bins)
        except BuildError as e:
            print(str(e))
            print('INCONCLUSIVE property=%s reason=driver build failed (does the repository still compile?)' % pid)
            write_evidence(pid, tier, seed, st, time.time() - t0, prop, ['driver build failed'], {})
            return 2
    cfgs = prop.configs(tier) if not tasks else []
    if a.cfg:
        cfgs = [c for c in cfgs if c in a.cfg.split(',')]
    if a.only_aux:
        cfgs, tasks = [], []
    for ci, cname in enumerate(cfgs):
        cfg = core.Cfg(cname)
        n = max(1, int(prop.budget(cfg, tier) * a.scale))
        per = getattr(prop, 'TASK_REQS', 3000)
        nparts = max(1, (n + per - 1) // per)
        for part in range(nparts):
            tasks.append({'prop': pid, 'cfg': cname, 'seed': core.h64('%d/%s/%s/%d' % (seed, pid, cname, part)),
                          'part': part, 'nparts': nparts, 'tier': tier, 'bins': bins, 'n': (n + nparts - 1) // nparts,
                          'timeout': getattr(prop, 'TIMEOUT', 900)})
    randcov = None
    densecov = None
    generic = not hasattr(prop, 'make_tasks') and not a.only_aux and not a.cfg

    def table_tasks(table, modes, variant, tag, nreq, dense=0):
        """tasks on a driver whose configuration table is generated at run time (same property binary, same requests, same model)"""
        rbins = {}
        for mode in modes:
            rbins[mode] = build_random_table([prop.BIN], table, mode, variant=variant)[prop.BIN]
        names = ['%s%dx%d' % (sg, d, n) for d in (8, 16, 32, 64) for n in table.get(d, []) for sg in 'ui']
        for cname in names:
            cfg = core.Cfg(cname)
            n = max(1, int(nreq(cfg) * a.scale))
            per = getattr(prop, 'TASK_REQS', 3000)
            nparts = max(1, (n + per - 1) // per)
            for part in range(nparts):
                tasks.append({'prop': pid, 'cfg': cname, 'seed': core.h64('%d/%s/%s/%s/%d' % (seed, pid, cname, tag, part)), 'part': part, 'nparts': nparts,
                              'tier': 'quick', 'bins': rbins, 'n': (n + nparts - 1) // nparts, 'timeout': getattr(prop, 'TIMEOUT', 900), 'dense': dense})
        return names

    if tier == 'thorough' and generic and os.environ.get('VERIF_RANDCFG', '1') != '0':
        rc = random_cfgs(seed, pid)
        try:
            names = table_tasks(rc, ('dev', 'rel'), 'rand', 'rand', lambda cfg: min(prop.budget(cfg, 'quick'), 20000) if cfg.bits in (8, 16) else prop.budget(cfg, 'quick'))
            print('[%s] random extra configurations this run: %s' % (pid, ' '.join(n for n in names if n[0] == 'u')), flush=True)
            randcov = {'configurations': names}
        except BuildError as e:
            st['inconclusive'].append('random-configuration pass: %s' % str(e)[:600])
    if generic and os.environ.get('VERIF_DENSE', '1') != '0':
        # dense digit-count sweep: every N up to a bound for every digit type, a small budget each (DESIGN 4: the quantifier is 'every N >= 1')
        dt = dense_table(prop, tier, full)
        if any(dt.values()):
            try:
                t1 = time.time()
                dn = int(getattr(prop, 'DENSE_REQS', {}).get(tier, 60 if tier == 'quick' else 150))
                names = table_tasks(dt, ('dev',) if tier == 'quick' else getattr(prop, 'DENSE_MODES', ('dev', 'rel')), 'dense', 'dense',
                                    lambda cfg: max(10, min(dn, prop.budget(cfg, 'quick'))), dense=max(100, 2 * dn))
                print('[%s] dense digit-count pass: %d extra types (%s), built in %.0fs' % (
                    pid, len(names), ', '.join('u%d: N=%s' % (d, span(dt[d])) for d in (8, 16, 32, 64) if dt.get(d)), time.time() - t1), flush=True)
                densecov = {'types': len(names), 'digit_counts': {'u%d' % d: span(dt[d]) for d in (8, 16, 32, 64) if dt.get(d)},
                            'requests_per_type': dn, 'build_modes': ['dev'] if tier == 'quick' else list(getattr(prop, 'DENSE_MODES', ('dev', 'rel')))}
            except BuildError as e:
                st['inconclusive'].append('dense digit-count pass: %s' % str(e)[:600])
    # heavier tasks first
    tasks.sort(key=lambda t: -t.get('weight', core.Cfg(t['cfg']).bits if 'cfg' in t else 0))
    with cf.ProcessPoolExecutor(max_workers=a.jobs) as ex:
        for r in ex.map(run_task, tasks, chunksize=1):
            merge(st, r)
    # auxiliary passes (sanitizers, big-endian interpreter, nightly-only API): property specific
    if hasattr(prop, 'extra_passes') and os.environ.get('VERIF_AUX', '1') != '0':   # VERIF_AUX=0: debugging aid, skips the sanitizer / interpreter passes
        try:
            extra_cov = prop.extra_passes(sys.modules[__name__], tier, seed, st, a.jobs) or {}
        except BuildError as e:
            st['inconclusive'].append('auxiliary build failed: %s' % str(e)[:800])
        except Exception:
            st['inconclusive'].append('auxiliary pass crashed: ' + traceback.format_exc()[-1500:])
    if a.ops:
        st['viol_list'] = [v for v in st['viol_list'] if v['op'] in a.ops.split(',')]
    if randcov:
        extra_cov['random_extra_configurations'] = randcov
    if densecov:
        extra_cov['dense_digit_count_pass'] = densecov
    if tier == 'thorough' and not hasattr(prop, 'make_tasks') and not a.cfg and os.environ.get('VERIF_COVERAGE', '1') != '0':
        try:
            import aux
            extra_cov['reach_audit'] = aux.coverage_audit(sys.modules[__name__], prop, tier, seed, st, a.jobs)
        except Exception:
            extra_cov['reach_audit'] = {'skipped': traceback.format_exc()[-400:]}
    return finish(pid, prop, tier, seed, st, t0, extra_cov)


def finish(pid, prop, tier, seed, st, t0, extra_cov):
    problems = list(st['inconclusive'])
    if st['unmodelled']:
        problems.append('driver emitted operations the model does not know: %s' % dict(st['unmodelled']))
    if st['oracle_mismatch']:
        problems.append('oracle self-check failed: model != primitive on %d events, e.g. %s' % (st['oracle_mismatch'], st['oracle_mismatch_samples'][:2]))
    floors = prop.floors(st, tier) if hasattr(prop, 'floors') else []
    problems += ['observation floor not met: ' + f for f in floors]
    if st['events'] == 0:
        problems.append('no events observed')
    known = load_known()
    new_viol = []
    known_hits = {}
    for v in st['viol_list']:
        k = known_match(v, known)
        if k is not None:
            known_hits.setdefault(k['id'], (k, v))
        else:
            new_viol.append(v)
    wall = time.time() - t0
    write_evidence(pid, tier, seed, st, wall, prop, problems, extra_cov, len(new_viol))
    print('[%s] requests=%d events=%d calibrated=%d distinct_nontrivial=%d configs=%d wall=%.0fs' % (
        pid, st['requests'], st['events'], st['calib'], len(st['nontrivial']), len(st['cfgs']), wall))
    top = ', '.join('%s=%d' % kv for kv in sorted(st['classes'].items(), key=lambda kv: -kv[1])[:40])
    print('[%s] classes: %s' % (pid, top))
    for kid, (k, v) in known_hits.items():
        print('KNOWN-FINDING: property=%s %s (e.g. %s on %s: %s)' % (pid, k['what'], v['op'], v['cfg'], v['request']))
    if new_viol:
        os.makedirs(os.path.join(out_root(), 'replays'), exist_ok=True)
        new_viol.sort(key=lambda v: (core.Cfg(v['cfg']).bits, v['op'], v['mode']))
        for i, v in enumerate(new_viol[:25]):
            path = os.path.join(out_root(), 'replays', '%s-%d-%d.json' % (pid, seed, i))
            with open(path, 'w') as f:
                json.dump(v, f, indent=1)
            print('VIOLATION property=%s replay=%s' % (pid, os.path.relpath(path, ROOT)))
            print('    %s %s [%s]: observed %s, expected %s (%s)\n    request: %s' % (v['cfg'], v['op'], v['mode'], v['observed'][:200], v['expected'][:200], v['why'], v['request'][:400]))
        byop = Counter(v['op'] for v in new_viol)
        print('[%s] %d violating events in total; distinct (op, cfg, mode) combinations: %d; by op: %s' % (pid, st['violations'], len(new_viol), dict(byop)))
        return 1
    if problems:
        for p in problems[:10]:
            print('INCONCLUSIVE property=%s reason=%s' % (pid, p[:1500]))
        return 2
    print('[%s] HELD on everything observed' % pid)
    return 0


def write_evidence(pid, tier, seed, st, wall, prop, problems, extra_cov, nviol=0):
    os.makedirs(os.path.join(out_root(), 'evidence'), exist_ok=True)
    cov = {
        'evaluations': st['events'],
        'distinct_nontrivial': len(st['nontrivial']),
        'rule': getattr(prop, 'RULE', ''),
        'samples': st['samples'][:8],
        'requests': st['requests'],
        'events_per_operation': dict(st['ops']),
        'requests_per_configuration_and_mode': dict(st['cfgs']),
        'build_modes': dict(st['modes']),
        'class_counts': dict(st['classes']),
        'calibration_events_vs_primitive': st['calib'],
        'calibration_disagreements': st['oracle_mismatch'],
        'exhaustive_subspaces': sorted(set(st['exhaustive'])),
        'exhaustive': False,
        'inconclusive_reasons': problems[:10],
    }
    cov.update(extra_cov or {})
    ev = {
        'property_id': pid, 'tier': tier if tier in ('quick', 'thorough') else 'quick', 'seed': seed, 'level': 'exploration',
        'coverage': cov,
        'assumptions': getattr(prop, 'ASSUMPTIONS', []) + [
            'Python int arithmetic is the reference; the reference model is calibrated in-run against the Rust primitives at 8/16/32/64/128 bits',
            'the driver converts values to/from bit patterns only through from_digits/digits/from_bits/to_bits'],
        'wall_s': round(wall, 1),
        'violations': nviol,
    }
    with open(os.path.join(out_root(), 'evidence', pid + '.json'), 'w') as f:
        json.dump(ev, f, indent=1, default=str)


def replay(prop, path):
    with open(path) as f:
        v = json.load(f)
    pid = prop.PROP
    mode = v['mode']
    full = v.get('full', False)
    toks = v['request'].split()
    cfg = core.Cfg(toks[0])
    if hasattr(prop, 'replay'):
        return prop.replay(sys.modules[__name__], v)
    if v.get('op') in ('exhaustive16', 'bulk-vs-primitive'):
        paths, _ = build(['exh'], 'rel')
        hdr, resp = run_driver(paths['exh'], v['request'] + '\n', 3600)
        o = core.parse_outcome(resp[0].split('=', 1)[1])
        print('request : ' + v['request'])
        print('response: %d evaluations, %d mismatches, first: %s' % (o[0], o[1], o[2].decode('utf8', 'replace')))
        if o[1]:
            print('VIOLATION property=%s replay=%s' % (pid, path))
            return 1
        print('[%s] replayed sweep has no mismatch now' % pid)
        return 0
    full = full or (toks[0] not in core.cfg_names(False) and toks[0] not in getattr(prop, 'CAST_TYPES', []))
    try:
        if mode in ('miri', 'miri-be', 'asan', 'nightly'):
            import aux
            argv, binpath, env = aux.prepare(sys.modules[__name__], mode, prop.BIN, full)
            reqfile = os.path.join(BUILD, 'replay.req')
            with open(reqfile, 'w') as f:
                f.write(v['request'] + '\n')
            p = subprocess.run(([binpath] if binpath else list(argv)) + ['--in', reqfile], env=env, capture_output=True, text=True, timeout=1800)
            out = [l for l in p.stdout.split('\n') if l]
            hi = next((i for i, l in enumerate(out) if l.startswith('#H')), None)
            if 'Undefined Behavior' in p.stderr or 'AddressSanitizer' in p.stderr:
                print(p.stderr[-3000:])
                print('VIOLATION property=%s replay=%s' % (pid, path))
                return 1
            if hi is None or len(out) < hi + 2:
                print('INCONCLUSIVE property=%s reason=no response under %s: %s' % (pid, mode, p.stderr[-500:]))
                return 2
            hdr = dict(kv.split('=') for kv in out[hi].split()[1:])
            resp = out[hi + 1:]
        else:
            if toks[0] not in core.cfg_names(True) and toks[0] not in core.cfg_names(False) and toks[0] not in getattr(prop, 'CAST_TYPES', []):
                # a configuration of the dense / random passes: one-off driver with just this digit count
                paths = build_random_table([prop.BIN], {d: ([cfg.n] if d == cfg.dbits else []) for d in (8, 16, 32, 64)}, mode, variant='replay')
            else:
                paths, _ = build([prop.BIN], mode, full=full)
            hdr, resp = run_driver(paths[prop.BIN], v['request'] + '\n', 600)
    except BuildError as e:
        print(str(e))
        print('INCONCLUSIVE property=%s reason=driver build failed' % pid)
        return 2
    st = new_stats()
    args = prop.decode(cfg, toks[1], toks[2:])
    judge_line(prop, cfg, hdr['dbg'] == '1', toks[1], args, resp[0], st, v['request'], mode, hdr.get('endian', 'little'))
    print('request : ' + v['request'])
    print('response: ' + resp[0][:3000])
    if st['viol_list']:
        for w in st['viol_list']:
            print('VIOLATION property=%s replay=%s' % (pid, path))
            print('    %s %s [%s]: observed %s, expected %s' % (w['cfg'], w['op'], w['mode'], w['observed'], w['expected']))
        return 1
    if st['inconclusive']:
        print('INCONCLUSIVE property=%s reason=%s' % (pid, st['inconclusive'][0]))
        return 2
    print('[%s] replayed request no longer violates' % pid)
    return 0


if __name__ == '__main__':
    sys.exit(main(sys.argv[1:]))
